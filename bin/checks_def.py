"""Definitions of the per-property checks: drivers, trace-spec invariants, design-model configs, coverage rules."""
import json, hashlib, os, re

INV = {
    'C01': ['Inv_C01_WriteOnlyIfPermitted', 'Inv_C01_LadderMatchesStatement', 'Inv_C01_RefusalReported',
            'Inv_C01_PermittedIsDone', 'Inv_C01_AdoptNotSkipped', 'Inv_C19_NoPanic'],
    'C02': ['Act_C02_RevisionMonotone', 'Inv_C02_NoTakeFromNewer', 'Inv_C02_SingleController', 'Act_C02_RevisionFixed', 'Inv_C19_NoPanic'],
    'C03': ['Inv_C03_Gate', 'Inv_C03_FirstFailureNamed', 'Inv_C19_NoPanic'],
    'C04': ['Inv_C04_ReverseOrder', 'Inv_C04_FinalizerHeld', 'Inv_C04_ArchivedFalseUntilDone', 'Inv_C04_NothingControlledWhenReleased', 'Inv_C19_NoPanic'],
    'C05': ['Inv_C05_DeleteOnlyController', 'Inv_C05_StoreEnforces', 'Inv_C05_DeletedWasControlled', 'Inv_C05_CoOwned',
            'Inv_C05_ForeignUntouched', 'Inv_C05_Orphan', 'Inv_C19_NoPanic'],
    'C06': ['Inv_C06_AvailableJustified', 'Inv_C06_ControllerOf', 'Inv_C06_SucceededWhenAvailable', 'Act_C06_SucceededSticky',
            'Inv_C06_InTransition', 'Inv_C06_Archived', 'Inv_C06_ArchivedNotReconciled', 'Inv_C06_MappedConditions', 'Inv_C06_ControllerOfComplete', 'Inv_C19_NoPanic'],
    'C07': ['Inv_C07_CreateJustified', 'Inv_C07_AtMostOnePerTemplateEpoch', 'Inv_C07_RevisionsUnique', 'Inv_C07_RevisionIncreasing', 'Inv_C07_NoReuse', 'Inv_C07_ProgressOnMismatch', 'Conf_DeployPlan', 'Inv_C19_NoPanic'],
    'C08': ['Inv_C08_ArchiveOnlyPaused', 'Inv_C08_NewestNeverArchived', 'Inv_C08_ArchiveCondition', 'Inv_C08_PruneOldestOnly', 'Inv_C08_PruneNotServing', 'Inv_C08_SharedObjectNotDeleted', 'Inv_C05_DeletedWasControlled', 'Inv_C06_Archived', 'Conf_DeployPlan', 'Inv_C19_NoPanic'],
    'C09': ['Inv_C09_NoWritesWhilePaused', 'Inv_C09_StillReports', 'Inv_C09_PausedPassCompletes', 'Inv_C09_DeploymentPausedNoRevisionChange', 'Inv_C09_ReleaseExactlyMarked', 'Inv_C09_Propagation', 'Inv_C09_PackagePaused', 'Inv_C09_PhasePauseFollows', 'Inv_C09_PhasePauseBehindFailure', 'Conf_DeployPlan', 'Conf_RemotePhase', 'Inv_C19_NoPanic'],
    'C10': ['Inv_C10_Quiescent', 'Inv_C10_SameOutcome', 'Inv_C10_DigestMatchesStore', 'Inv_C10_RetryArmed', 'Inv_C19_NoPanic'],
    'C11': ['Inv_C11_PhaseAllOrNothing', 'Inv_C11_Scope', 'Inv_C11_Reported', 'Inv_C11_NoWriteIfViolating', 'Inv_C11_ViolationReported', 'Inv_C19_NoPanic'],
    'C14': ['Inv_C14_SameAsInline', 'Inv_C14_GC', 'Inv_C14_GCInstant', 'Inv_C14_SliceContent', 'Conf_DeployPlan', 'Inv_C19_NoPanic'],
    'C15': ['Inv_C15_SameAsLocal', 'Inv_C15_PhaseObjectFaithful', 'Inv_C15_PhaseObjectLifetime', 'Inv_C15_PausePropagation', 'Inv_C15_RemotePhaseRefsCurrent', 'Inv_C09_PhasePauseFollows', 'Inv_C09_PhasePauseBehindFailure', 'Conf_RemotePhase', 'Inv_C19_NoPanic'],
    'C12': ['Inv_C12_InformerIffOwned', 'Inv_C12_HandlersAttached', 'Inv_C12_ReadUnwatchedFails', 'Inv_C12_MatchesReferenceModel'],
    'C20': ['Inv_C20_OnePullPerImage', 'Inv_C20_ExactlyOneResponse', 'Inv_C20_NoPhantomPull', 'Inv_C20_Private', 'Inv_C20_NoLostWakeup'],
    'C13': ['Inv_C13_Deterministic', 'Inv_C13_Conservation', 'Inv_C13_LabelsAndAnnotations', 'Inv_C13_FuncAllowList'],
    'C16': ['Inv_C16_NoDeployUnlessAdmissible', 'Inv_C16_Conditions', 'Inv_C16_NoRepull', 'Inv_C16_TemplateIsRender', 'Inv_C16_RecordJustified', 'Inv_C13_UnchangedPackageKeepsTemplate', 'Inv_C16_ValidPackageDeploys', 'Inv_C19_NoPanic', 'Inv_C16_ChangedSpecIsPulled'],
    'C17': ['Inv_C17_Verdict', 'Inv_C17_AllFailuresReported', 'Inv_C17_CELMustBeBoolean', 'Inv_C17_ObjectUnchanged', 'Inv_C17_NoPanic'],
    'C18': ['Inv_C18_OutputIsRender', 'Inv_C18_InvalidNoWrite', 'Inv_C18_Freed', 'Inv_C11_Scope', 'Inv_C19_NoPanic'],
    'C19': ['Inv_C19_NoPanic', 'Inv_C19_DomainCovered'],
}


def property_of_invariant(name):
    m = re.match(r'(?:Inv|Act|Live)_(C\d+)_', name)
    return m.group(1) if m else '?'


def key_kind(k):
    kd = k.split('/')[0]
    return 'Object' if kd in ('ConfigMap', 'Widget', 'ClusterThing', 'Secret') else kd


def scenario_family(name):
    return re.split(r'[/ ]', name)[0].rstrip('-0123456789') if name else ''


def identity(pid, v):
    e = v['event']
    ident = '%s:%s:%s:%s' % (v['invariant'], e.get('actor'), e.get('ev'), key_kind(e.get('key', '')))
    if e.get('ev') == 'C16Template':
        ident += ':pulled=' + str(e.get('args', {}).get('pulled', ''))
    return ident


# ---------------------------------------------------------------- coverage rules

def _oid(target):
    p = target.split('/')
    return p[0] + '/' + p[-1]


def g_c01(e):
    if e['actor'] in ('os', 'ph', 'cos', 'cph') and e['ev'] in ('DynGet', 'Get') and e['role'] in ('dyn', 'uncached') and e['res'] == 'ok':
        ow = e['post']['owners'] + e['post']['aowners']
        return not any(o['ctrl'] and o['id'] == _oid(e['target']) for o in ow)
    return False


def g_c02(e):
    if e['ev'] == 'ApplyPatch' and not e['dry'] and e['pre']['exists'] and e['res'] == 'ok':
        return [o for o in e['pre']['owners'] + e['pre']['aowners'] if o['ctrl']] != [o for o in e['post']['owners'] + e['post']['aowners'] if o['ctrl']]
    return False


def g_status(e):
    return e['ev'] == 'StatusUpdate' and e['actor'] in ('os', 'cos', 'ph', 'cph')


def g_probefail(e):
    return g_status(e) and any(c['type'] == 'Available' and c['reason'] in ('ProbeFailure', 'Available') for c in e['args']['body']['cr']['conds'])


def g_delete(e):
    return e['ev'] in ('Delete',) and e['actor'] in ('os', 'cos', 'ph', 'cph') and not e['dry']


def g_teardown_write(e):
    return g_delete(e) or (e['ev'] == 'MergePatch' and e['actor'] in ('os', 'ph', 'cos', 'cph') and e['args']['patch']['setsOwners'])


def g_paused(e):
    return e['ev'] == 'Get' and e['key'] == e['target'] and e['post']['exists'] and e['post']['cr']['lifecycle'] == 'Paused' and not e['post']['deleting']


def g_preflight(e):
    return e['actor'] in ('os', 'cos', 'ph', 'cph', 'tm') and ((e['dry'] and e['res'] != 'ok') or (e['ev'] == 'StatusUpdate' and any(
        c['reason'] == 'PreflightError' for c in e['args']['body']['cr']['conds'])))


def g_dep_create(e):
    return e['actor'] in ('od', 'cod') and e['ev'] == 'Create' and not e['dry']


def g_dep_archive(e):
    return e['actor'] in ('od', 'cod') and ((e['ev'] == 'Update' and e['args']['body']['cr']['lifecycle'] == 'Archived') or e['ev'] == 'Delete')


GUARDS = {'C18': lambda e: e['ev'] == 'C18Check',
          'C16': lambda e: e['ev'] == 'Pull',
          'C17': lambda e: e['ev'] == 'C17Row',
          'C20': lambda e: e['ev'] in ('C20Release', 'C20Stress') and (e['ev'] == 'C20Stress' or len(e['args']['returned']) > 0),
          'C12': lambda e: e['ev'] in ('C12Op', 'C12Quiescent'),
          'C15': lambda e: e['ev'] in ('Create', 'Delete', 'MergePatch') and e['key'].startswith('ObjectSetPhase/') and e['actor'] == 'os' or (e['ev'] == 'Quiesced' and e['args'].get('diff') == 'c15'),
          'C14': lambda e: (e['ev'] == 'Quiesced' and e['args'].get('diff') == 'c14') or (e['ev'] == 'Get' and e['key'].startswith('ObjectSlice/')),
          'C10': lambda e: e['ev'] == 'Quiesced' and e['args'].get('hasRef') and e['args'].get('fired', 0) > 0, 'C07': g_dep_create, 'C08': g_dep_archive, 'C01': g_c01, 'C02': g_c02, 'C03': g_probefail, 'C04': g_teardown_write, 'C05': g_teardown_write, 'C06': g_status,
          'C09': g_paused, 'C11': g_preflight}

RULES = {
    'C19': 'one case = one (entry point, shape class) row of spec/Shapes.tla; every row is distinct and reaches the real entry point',
    'C18': 'non-trivial: a quiescence checkpoint of a seeded history of source creations / edits / deletions, template edits, output tampering and restarts was judged; distinct by event sequence',
    'C16': 'non-trivial: the Package controller pulled an image (valid, each invalidity class, unmet constraints, pull failure) in a seeded walk with spec edits, API faults and conflicts; distinct by event sequence',
    'C13': 'one case = one abstract package rendered k times in one process; distinct abstract packages are counted',
    'C17': 'one case = one (probe list, object) row: every single-entry probe list x every abstract object exhaustively, lists of 2-3 entries sampled by seed',
    'C20': 'one case = one script of request arrivals / pull completions (3 callers x 2 images, success or failure) executed on the real RequestManager, or one free-running stress run; non-trivial if a pull completed with waiting callers; distinct by event sequence',
    'C12': 'one case = one operation sequence (Watch/Free/Get/List/OwnersForGKV with scripted informer start-up failures) executed on the real dynamiccache.Cache, or one concurrent stress run; distinct by the sequence of operations and results',
    'C15': 'non-trivial: the ObjectSet controller created/patched/deleted an ObjectSetPhase object, or a delegated variant of the staged scenario was compared stage by stage with the in-process run; distinct by event sequence',
    'C14': 'non-trivial: an ObjectSlice was loaded, or a sliced variant of the staged scenario was compared stage by stage with the inline run; distinct by event sequence',
    'C10': 'one case = one staged scenario run with one (or two) disturbances (API fault before/after effect, crash, drift) injected at a given API-call index; non-trivial if the disturbance actually fired; distinct by event sequence',
    'C07': 'non-trivial: the deployment controller issued an ObjectSet create; distinct by event sequence',
    'C08': 'non-trivial: the deployment controller archived or pruned a revision; distinct by event sequence',
    'C01': 'a scenario (one Reset..next Reset slice of a trace of the real controllers) is non-trivial if a pass read an existing object its owner does not control (the adoption ladder was evaluated); distinct by the sequence of (actor,event,key,result)',
    'C02': 'non-trivial: an apply-patch changed the controller entries of an existing object (a handover happened); distinct by event sequence',
    'C03': 'non-trivial: the ObjectSet wrote an Available condition from probing (ProbeFailure or Available); distinct by event sequence',
    'C04': 'non-trivial: a teardown pass issued a delete or owner-removal patch; distinct by event sequence',
    'C05': 'non-trivial: a teardown pass issued a delete or owner-removal patch; distinct by event sequence',
    'C06': 'non-trivial: a status update of an ObjectSet/ObjectSetPhase was issued; distinct by event sequence',
    'C09': 'non-trivial: a pass started on a paused, non-deleted ObjectSet/phase; distinct by event sequence',
    'C11': 'non-trivial: a preflight check rejected an object or a PreflightError was reported; distinct by event sequence',
}


# table-like drivers: one event = one case; distinct cases are counted by the abstract row itself
ROWKEY = {
    'C19': ('C19Row', lambda e: e['args']['entry'] + '/' + e['args']['shape']),
    'C13': ('C13Row', lambda e: json.dumps(e['args']['pkg'], sort_keys=True)),
    'C17': ('C17Row', lambda e: json.dumps([e['args']['probes'], e['args']['obj']], sort_keys=True)),
}


def coverage_rows(pid, results):
    evname, keyf = ROWKEY[pid]
    seen, samples, n = set(), [], 0
    for r in results:
        try:
            f = open(r['trace'])
        except OSError:
            continue
        for line in f:
            if evname not in line:
                continue
            e = json.loads(line)
            if e['ev'] != evname:
                continue
            n += 1
            k = keyf(e)
            if k not in seen:
                seen.add(k)
                if len(samples) < 5:
                    samples.append(e['args'])
    return dict(distinct_nontrivial=len(seen), rule=RULES.get(pid, '') + ' [distinct abstract rows, measured]', samples=samples or [dict(note='none')], evaluations=n)


def coverage(pid, results):
    if pid in ROWKEY:
        return coverage_rows(pid, results)
    guard = GUARDS.get(pid, lambda e: True)
    sigs, samples = set(), []
    for r in results:
        cur, nontrivial, name = [], False, ''
        def flush():
            if cur and nontrivial:
                s = hashlib.sha1((json.dumps(cur) + (name if name.startswith(('adopt-row', 'row')) else '')).encode()).hexdigest()
                if s not in sigs:
                    sigs.add(s)
                    if len(samples) < 5:
                        samples.append(dict(scenario=name, events=len(cur), first_events=cur[:12]))
        try:
            f = open(r['trace'])
        except OSError:
            continue
        for line in f:
            e = json.loads(line)
            if e['ev'] == 'Reset':
                flush()
                cur, nontrivial, name = [], False, e['args'].get('scenario', '')
                continue
            cur.append([e['actor'], e['ev'], e['key'], e['res']])
            try:
                if guard(e):
                    nontrivial = True
            except (KeyError, TypeError):
                pass
        flush()
    return dict(distinct_nontrivial=len(sigs), rule=RULES.get(pid, 'distinct scenarios by event sequence'), samples=samples or [dict(note='none')])


# ---------------------------------------------------------------- jobs

ALL_SCHED = ['C01', 'C02', 'C03', 'C04', 'C05', 'C06', 'C09', 'C11']


# thorough-tier sample sizes are the nominal ones times this factor (fit to a loaded 16-core machine: every check ends within ~25 min)
THOROUGH_SCALE = float(os.environ.get('VERIF_THOROUGH_SCALE', '0.4'))


def TN(n):
    return max(1, int(n * THOROUGH_SCALE))


def T(n):
    return str(TN(n))


def rnd(name, scenarios, profile, mode, n, steps, seed, shards):
    return dict(name=name, shards=shards, driver=['random', '-scenarios', scenarios, '-profile', profile, '-mode', mode,
                                                  '-n', str(n), '-steps', str(steps), '-seed', str(seed)])


def jobs_c01(tier, seed):
    q = tier == 'quick'
    return [
        dict(name='adopt-table', shards=8 if q else 14, driver=['adopt-table', '-n', '4000' if q else '0', '-seed', str(seed)]),
        rnd('collision-atomic', 'collision,handover-2rev,handover-3rev,delegated-handover,delegated-handover-recreated,cluster-delegated-handover,local-to-delegated', 'collision', 'atomic',
            120 if q else TN(1500), 50, seed, 4 if q else 12),
    ]


HANDOVER = 'handover-2rev,handover-3rev,handover-3rev-annot,delegated-handover,local-to-delegated,rolledout-handover,handover-cpnone,handover-ifnoctrl'
ROLLOUT = 'single-2phase,single-2phase-cel,single-3phase,delegated-mixed,sliced,sliced-late,rolledout-delegated,paused-start,single-mapped,delegated-mapped'
TEARDOWN = 'rolledout-2phase,rolledout-delegated,rolledout-handover,single-2phase,delegated-mixed,handover-2rev,sliced'
DEPLOY = 'deploy,deploy-limit1,deploy-limit0,deploy-rolledout,deploy-limit1-ghost,deploy-midarchived'


def replay_jobs(tier):
    """spec-guided replay: TLC-generated behaviours of the design model stepped through the real controller"""
    q = tier == 'quick'
    return [dict(name='replay-' + inst, shards=4 if q else 14, driver=['replay'],
                 replay=dict(instance=inst, n=56 if q else TN(1400), depth=80 if q else 120, budgets=(3, 3, 1)))
            for inst in ('handover', 'single3')]


def sched_jobs(specs, replay=True):
    def f(tier, seed):
        q = tier == 'quick'
        out = []
        for (name, scen, profile, mode, nq, nt, steps) in specs:
            out.append(rnd(name, scen, profile, mode, nq if q else TN(nt), steps, seed, 4 if q else 14))
        if replay:
            out += replay_jobs(tier)
        return out
    return f


def design_mc(invs):
    """exhaustive TLC runs of the design model (spec/PKO.tla): every interleaving at API-call granularity within the budgets"""
    def f(tier):
        if tier == 'quick':
            return [dict(name='handover-b111', instance='handover', budgets=(1, 1, 1), invariants=['TypeOK'] + invs),
                    dict(name='single3-b111', instance='single3', budgets=(1, 1, 1), invariants=['TypeOK'] + invs)]
        # (with third-party creates enabled - observation O10 - the former budgets 2/1/1 and 3/2/1 mean 38 M and 101 M states,
        #  10 and 23 min per check; 2/1/0 = 7.1 M states, 2/2/1 = 4.4 M states)
        return [dict(name='handover-b210', instance='handover', budgets=(2, 1, 0), invariants=['TypeOK'] + invs, timeout=3000),
                dict(name='single3-b221', instance='single3', budgets=(2, 2, 1), invariants=['TypeOK'] + invs, timeout=3000)]
    return f


def deploy_mc(which):
    """exhaustive TLC runs of the revision-layer design model (spec/PKODeploy.tla): ObjectDeployment controller at API-call
    granularity, abstract ObjectSet controller, users, package deployer with slices"""
    C07 = ['Inv_C07_AtMostOnePerTemplateEpoch', 'Inv_C07_RevisionIncreasing']
    C07S = ['Inv_C07_RevisionsUnique', 'Inv_C07_PreviousComplete']
    C08 = ['Inv_C08_ArchiveOnlyPaused', 'Inv_C08_NewestNeverArchived', 'Inv_C08_ArchiveCondition', 'Inv_C08_PruneOldestOnly', 'Inv_C08_PruneOnlyHistory', 'Inv_C09_PausedNoRevisionChange']

    def consts(tier, **kw):
        q = tier == 'quick'
        c = dict(Tmpl='MCTmpl3', Obj='MCObj', TObjs='MCTObjs', MaxColl=1, HistLimit=1, Lag='FALSE', WithPk='FALSE', AtomicOd='FALSE', MaxPkFail=0, GCAfterFailedUpdate='FALSE',
                 MaxEdit=2, MaxPause=1 if q else 1, MaxWork=1 if q else 2, MaxCrash=0 if q else 1, MaxLagEdit=2)
        c.update(kw)
        return c

    def f(tier):
        q = tier == 'quick'
        t2 = dict(Tmpl='MCTmpl') if q else {}
        jobs = []
        if which in ('C07', 'C08'):
            inv = (C07 + C07S) if which == 'C07' else C08
            jobs.append(dict(name='deploy-nolag', kind='gen', module='MC_PKODeploy', constants=consts(tier), invariants=['TypeOK'] + inv, timeout=3000))
            jobs.append(dict(name='deploy-lag', kind='gen', module='MC_PKODeploy', constants=consts(tier, Lag='TRUE', **t2),
                             invariants=['TypeOK'] + (C07 if which == 'C07' else C08), timeout=3000))
            if which == 'C08':
                # negative control: pruning whatever the state (the code before fix 244db63) with revisionHistoryLimit 0
                jobs.append(dict(name='deploy-negctl-pruneany', kind='gen', module='MC_PKODeploy',
                                 constants=dict(consts(tier, HistLimit=0, **t2), PruneAnyState='MCTrue'),
                                 invariants=['Inv_C08_PruneOnlyHistory'], expect_violation='Inv_C08_PruneOnlyHistory'))
                jobs.append(dict(name='deploy-limit0', kind='gen', module='MC_PKODeploy', constants=consts(tier, HistLimit=0, **t2),
                                 invariants=['TypeOK'] + C08, timeout=3000))
            if which == 'C07':
                jobs.append(dict(name='deploy-lag-asfound', kind='gen', module='MC_PKODeploy', constants=consts(tier, Lag='TRUE'),
                                 invariants=['Inv_C07_RevisionsUnique'], expect_violation='Inv_C07_RevisionsUnique'))
        if which == 'C14':
            jobs.append(dict(name='deploy-pk-decision', kind='gen', module='MC_PKODeploy', constants=consts(tier, WithPk='TRUE', MaxPause=0, **t2),
                             invariants=['TypeOK', 'Inv_C14_GCDecision'], timeout=3000))
            jobs.append(dict(name='deploy-pk-atomic', kind='gen', module='MC_PKODeploy', constants=consts(tier, WithPk='TRUE', AtomicOd='TRUE', MaxPause=0),
                             invariants=['TypeOK', 'Inv_C14_GCDecision', 'Inv_C14_GCInstant'], timeout=3000))
            jobs.append(dict(name='deploy-pk-asfound', kind='gen', module='MC_PKODeploy', constants=consts(tier, WithPk='TRUE', MaxPause=0),
                             invariants=['Inv_C14_GCInstant'], expect_violation='Inv_C14_GCInstant'))
            # a failed update of the deployment: the pass ends (decision invariant holds) - or, negative control, GC runs anyway
            small = dict(Tmpl='MCTmpl', WithPk='TRUE', MaxPause=0, MaxWork=0, MaxCrash=0, MaxPkFail=1)
            jobs.append(dict(name='deploy-pk-updatefails', kind='gen', module='MC_PKODeploy', constants=consts(tier, **small),
                             invariants=['TypeOK', 'Inv_C14_GCDecision'], timeout=3000))
            jobs.append(dict(name='deploy-pk-negctl-gcfail', kind='gen', module='MC_PKODeploy', constants=consts(tier, GCAfterFailedUpdate='TRUE', **small),
                             invariants=['Inv_C14_GCDecision'], expect_violation='Inv_C14_GCDecision'))
        return jobs
    return f


def phase_mc(tier):
    """exhaustive TLC runs (safety + liveness under fairness) of the delegated-phase protocol model spec/PKOPhase.tla: the ObjectSet
    controller's handling of phase objects per API call (decision = RemotePhase.tla), the ObjectSetPhase controller abstract"""
    q = tier == 'quick'
    inv = ['TypeOK', 'Inv_C03_Gate', 'Inv_C09_PhaseHandsOff', 'Inv_C09_PauseReachesReached', 'Inv_C04_ReverseOrder', 'Inv_C04_Release', 'Inv_C15_PhaseObjectLifetime']
    live = ['Live_Rollout', 'Live_Teardown']

    def c(**kw):
        d = dict(N=3, Deleg='MCDeleg23', PauseAll='FALSE', MaxUser=2 if q else 3, MaxWork=2 if q else 3, MaxTP=1)
        d.update(kw)
        return d
    jobs = [dict(name='phase-asfound', kind='gen', module='MC_PKOPhase', spec='FairSpec', constants=c(), invariants=inv, props=live, timeout=3000),
            dict(name='phase-asfound-d13', kind='gen', module='MC_PKOPhase', spec='FairSpec', constants=c(Deleg='MCDeleg13'), invariants=inv, props=live, timeout=3000),
            # the repair design (a paused pass goes on to propagate the pause, creating nothing) satisfies everything incl. PauseReachesAll
            dict(name='phase-pauseall', kind='gen', module='MC_PKOPhase', spec='FairSpec', constants=c(PauseAll='TRUE'),
                 invariants=inv + ['Inv_C09_PauseReachesAll'], props=live, timeout=3000),
            # negative control: the known finding C09 (pause does not reach phases behind a failing phase) at the design level
            dict(name='phase-asfound-negctl', kind='gen', module='MC_PKOPhase', constants=c(), invariants=['Inv_C09_PauseReachesAll'],
                 expect_violation='Inv_C09_PauseReachesAll')]
    return jobs


def package_mc(tier):
    """exhaustive TLC runs of the Package controller's unpack / deploy / record cycle (spec/PKOPackage.tla, one action per API call)"""
    q = tier == 'quick'
    c = dict(Specs='MCSpecs', Class='MCClass', Atomic='FALSE', CopyEnv='TRUE', RecordOnFailedPull='FALSE', MaxEdit=3 if q else 4, MaxFault=2 if q else 3, MaxTouch=1)
    safety = ['TypeOK', 'Inv_C16_NoDeployUnlessAdmissible', 'Inv_C09_PackagePaused', 'Inv_C16_NoRepull', 'Inv_C16_RecordJustified']
    return [dict(name='package-asfound', kind='gen', module='MC_PKOPackage', constants=c, invariants=safety, timeout=3000),
            # deploy + record as one step: everything holds, incl. TemplateIsRender and convergence under fairness
            dict(name='package-atomic', kind='gen', module='MC_PKOPackage', spec='FairSpec', constants=dict(c, Atomic='TRUE'),
                 invariants=safety + ['Inv_C16_TemplateIsRender'], props=['Live_C16_Converges'], timeout=3000),
            # negative control: the known finding C16 (template deployed, record fails, spec reverted) at the design level
            dict(name='package-asfound-negctl', kind='gen', module='MC_PKOPackage', constants=c, invariants=['Inv_C16_TemplateIsRender'],
                 expect_violation='Inv_C16_TemplateIsRender'),
            # negative control: the unpacked-hash recorded after a failed pull (seeded change, round 5)
            dict(name='package-negctl-recordfail', kind='gen', module='MC_PKOPackage', constants=dict(c, RecordOnFailedPull='TRUE'),
                 invariants=['Inv_C16_RecordJustified'], expect_violation='Inv_C16_RecordJustified')]


def package_env_mc(tier):
    """C13 at the design level: the environment as render input of the Package controller (shared sink, spec/PKOPackage.tla)"""
    q = tier == 'quick'
    c = dict(Specs='MCSpecs', Class='MCClass', Atomic='TRUE', CopyEnv='TRUE', RecordOnFailedPull='FALSE', MaxEdit=2 if q else 3, MaxFault=1 if q else 2, MaxTouch=2)
    return [dict(name='package-env-intended', kind='gen', module='MC_PKOPackage', constants=c, invariants=['TypeOK', 'Inv_C13_EnvIsOwn'],
                 props=['Act_C13_UnchangedKeepsTemplate'], timeout=3000),
            # negative control: the sink hands out a shallow copy (seeded change C13 / C18 round 4)
            dict(name='package-env-negctl', kind='gen', module='MC_PKOPackage', constants=dict(c, CopyEnv='FALSE'), invariants=['Inv_C13_EnvIsOwn'],
                 expect_violation='Inv_C13_EnvIsOwn')]


def template_mc(tier):
    """exhaustive TLC runs of the ObjectTemplate controller model (spec/PKOTemplate.tla): triggers, label-filtered events, retry timers"""
    q = tier == 'quick'
    c = dict(Vals='MCVals', WatchBeforeRead='TRUE', TimerOptional='TRUE', OtherWatcher='TRUE', CopyEnv='TRUE', MaxEdit=4 if q else 6, MaxCrash=1)
    inv = ['TypeOK', 'Inv_C18_OutputIsRender', 'Inv_C18_Freed']
    return [dict(name='template-intended', kind='gen', module='MC_PKOTemplate', spec='FairSpec', constants=c, invariants=inv,
                 props=['Live_C18_EventuallyCurrent'], timeout=3000),
            dict(name='template-alone', kind='gen', module='MC_PKOTemplate', spec='FairSpec', constants=dict(c, OtherWatcher='FALSE'), invariants=inv,
                 props=['Live_C18_EventuallyCurrent'], timeout=3000),
            # negative controls: two seeded changes the trace checks caught, at the design level
            dict(name='template-negctl-watch', kind='gen', module='MC_PKOTemplate', constants=dict(c, WatchBeforeRead='FALSE'),
                 invariants=['Inv_C18_OutputIsRender'], expect_violation='Inv_C18_OutputIsRender'),
            dict(name='template-negctl-timer', kind='gen', module='MC_PKOTemplate', constants=dict(c, TimerOptional='FALSE'),
                 invariants=['Inv_C18_OutputIsRender'], expect_violation='Inv_C18_OutputIsRender'),
            # the environment sink handing out a shallow copy: a neighbour's hosted cluster leaks into t's render
            dict(name='template-negctl-env', kind='gen', module='MC_PKOTemplate', constants=dict(c, CopyEnv='FALSE'),
                 invariants=['Inv_C18_OutputIsRender'], expect_violation='Inv_C18_OutputIsRender')]


def race_mc(tier):
    """two workers applying to one object (spec/PKOApplyRace.tla): design-level form of the known finding C02 and a design in which C02 holds"""
    c = dict(Pinned='FALSE', MaxPass=4 if tier == 'quick' else 8)
    inv = ['Act_C02_RevisionMonotone', 'Inv_C02_NoTakeFromNewer']
    return [dict(name='applyrace-pinned', kind='gen', module='PKOApplyRace', constants=dict(c, Pinned='TRUE'), invariants=inv),
            dict(name='applyrace-negctl', kind='gen', module='PKOApplyRace', constants=c, invariants=['Act_C02_RevisionMonotone'],
                 expect_violation='Act_C02_RevisionMonotone')]


def teardown_race_mc(tier):
    """teardown of the outgoing revision vs. rollout of the incoming one on a shared object, two controllers (spec/PKOTeardownRace.tla)"""
    c = dict(PinRV='TRUE', PinPatch='TRUE', MaxPass=4 if tier == 'quick' else 7, MaxEnv=1)
    inv = ['TypeOK', 'Inv_C05_DeletedWasControlled', 'Inv_C08_AdoptedNotDeleted', 'Inv_C05_ReleaseOnlyOwnEntry']
    return [dict(name='teardownrace-pinned', kind='gen', module='PKOTeardownRace', constants=c, invariants=inv),
            # negative controls: the delete without the resourceVersion precondition (seeded change C08 round 4) ...
            dict(name='teardownrace-negctl-delete', kind='gen', module='PKOTeardownRace', constants=dict(c, PinRV='FALSE'),
                 invariants=['Inv_C08_AdoptedNotDeleted'], expect_violation='Inv_C08_AdoptedNotDeleted'),
            # ... and the co-owner clean-up without it (the code as found, defect C05 fixed by e6a0367)
            dict(name='teardownrace-negctl-release', kind='gen', module='PKOTeardownRace', constants=dict(c, PinPatch='FALSE'),
                 invariants=['Inv_C05_ReleaseOnlyOwnEntry'], expect_violation='Inv_C05_ReleaseOnlyOwnEntry')]


LIVE = ['Live_C10_ObjectsRepaired', 'Live_C10_Quiescent', 'Live_C10_TeardownCompletes']


def live_mc(tier):
    """liveness of the design model spec/PKO.tla under fairness (FixedSpec: fixed desired state; third-party edits, workload changes and
    restarts bounded by the budgets; no state constraint): every active set ends up repaired, the system falls silent, teardown completes"""
    # the same properties with the controller driven by its work queue (spec/PKOTriggered.tla): a pass starts only for an enqueued set
    trig = dict(invariants=['TypeOK', 'TTypeOK'], spec='TSpec', props=LIVE + ['Live_C10_QueueDrains'], constraint=False, extends='PKOTriggered')
    negctl = dict(name='live-trig-negctl-noretry', instance='single3', budgets=(2, 0, 0), invariants=['TypeOK'], spec='TSpec', constraint=False,
                  extends='PKOTriggered', props=['Live_C10_ObjectsRepaired'], overrides=['RetryOnRefusal <- MCFalse'],
                  expect_violation='Live_C10_ObjectsRepaired')
    if tier == 'quick':
        return [dict(name='live-single3-b211', instance='single3', budgets=(2, 1, 1), invariants=['TypeOK'], spec='FixedSpec', props=LIVE, constraint=False),
                dict(name='live-handoverfixed-b111', instance='handoverfixed', budgets=(1, 1, 1), invariants=['TypeOK'], spec='FixedSpec', props=LIVE, constraint=False),
                dict(trig, name='live-trig-single3-b211', instance='single3', budgets=(2, 1, 1)),
                dict(trig, name='live-trig-handoverfixed-b111', instance='handoverfixed', budgets=(1, 1, 1)), negctl]
    return [dict(name='live-single3-b221', instance='single3', budgets=(2, 2, 1), invariants=['TypeOK'], spec='FixedSpec', props=LIVE, constraint=False, timeout=3000),
            dict(name='live-handoverfixed-b210', instance='handoverfixed', budgets=(2, 1, 0), invariants=['TypeOK'], spec='FixedSpec', props=LIVE, constraint=False, timeout=3000),
            dict(trig, name='live-trig-single3-b221', instance='single3', budgets=(2, 2, 1), timeout=3000),
            dict(trig, name='live-trig-handoverfixed-b210', instance='handoverfixed', budgets=(2, 1, 0), timeout=3000), negctl]


MCINV = {
    'C01': ['Inv_C01_WriteOnlyIfPermitted', 'Inv_C01_PermittedIsDone'],
    'C02': ['Act_C02_RevisionMonotone', 'Inv_C02_SingleController', 'Inv_C02_NoTakeFromNewer', 'Act_C02_RevisionFixed'],
    'C03': ['Inv_C03_Gate'],
    'C04': ['Inv_C04_ReverseOrder', 'Inv_C04_FinalizerHeld', 'Inv_C04_NothingControlledWhenReleased'],
    'C05': ['Inv_C05_DeletedWasControlled', 'Inv_C05_CoOwned', 'Inv_C05_Orphan'],
    'C06': ['Inv_C06_AvailableJustified', 'Inv_C06_ControllerOfSeen', 'Act_C06_SucceededSticky', 'Inv_C06_Archived'],
    'C09': ['Inv_C09_NoWritesWhilePaused'],
}


ASSUME = ['in-memory API server model (spec/Store.tla semantics, harness/sim/store.go)',
          'dynamic cache modelled as consistent label-filtered view; manager cache consistent unless lag is enabled',
          'schedules are sampled (seeded), not exhaustive']

NOT_APPLICABLE = {}

TECH = ('TLA+ model-based: exhaustive TLC check of the design model spec/PKO.tla; TLC-generated behaviours replayed step by step into the real '
        'controller with abstract-state comparison; TLC trace validation of every recorded execution against spec/TraceObs.tla invariants')
LEVEL_TEXT = ('Every API request the real controllers issue in seeded schedules / table rows is recorded and TLC evaluates the '
              'property invariants of the TLA+ trace specification on every state; violations are properties of real executions. '
              'Bounded: schedules and rows are sampled (quick) or enumerated to the stated bound (thorough).')
LEVEL_NOTE = ('Trusted: the in-memory API server model (harness/sim/store.go = spec Store semantics), the projection function, TLC. '
              'Not covered: schedules/inputs outside the drivers\' bounds, real informer/watch timing.')

CHECKS = {
    'C01': dict(level='model_checking', invariants=INV['C01'], jobs=lambda t, s: jobs_c01(t, s) + replay_jobs(t), mc=design_mc(MCINV['C01']),
                assumptions=['in-memory API server model (spec/Store.tla semantics, harness/sim/store.go)',
                             'third party acts between reconciles (pass-atomic schedules) as the statement quantifies']),
    'C02': dict(level='model_checking', invariants=INV['C02'], assumptions=ASSUME, mc=lambda tier: design_mc(MCINV['C02'])(tier) + race_mc(tier) + [
        # negative control: a dry-run apply answered with 409 is retried as a real apply (seeded change, round 4) - at the design level
        dict(name='handover-negctl-dryretry', instance='handover', budgets=(1, 0, 0), invariants=['Act_C02_RevisionMonotone'],
             overrides=['DryConflictApplies <- MCTrue'], expect_violation='Act_C02_RevisionMonotone')], jobs=sched_jobs([
        ('handover-atomic', HANDOVER, 'handover', 'atomic', 160, 3000, 70)])),
    'C03': dict(level='model_checking', invariants=INV['C03'], assumptions=ASSUME, mc=design_mc(MCINV['C03']), jobs=sched_jobs([
        ('rollout-atomic', ROLLOUT + ',' + HANDOVER, 'rollout', 'atomic', 120, 2000, 70),
        ('rollout-api', ROLLOUT + ',' + HANDOVER, 'rollout', 'api', 120, 2000, 120),
        ('gate-pause-api', 'delegated-mixed,rolledout-delegated,single-3phase,delegated-handover', 'pause', 'api', 100, 2000, 150)])),
    'C04': dict(level='model_checking', invariants=INV['C04'], assumptions=ASSUME, mc=design_mc(MCINV['C04']), jobs=sched_jobs([
        ('teardown-atomic', TEARDOWN, 'teardown', 'atomic', 120, 2000, 70),
        ('teardown-api', TEARDOWN, 'teardown', 'api', 120, 2000, 140)])),
    'C05': dict(level='model_checking', invariants=INV['C05'], assumptions=ASSUME, mc=lambda tier: design_mc(MCINV['C05'])(tier) + teardown_race_mc(tier), jobs=sched_jobs([
        ('race-api', TEARDOWN, 'race', 'api', 200, 3000, 140),
        ('race-coowned-api', 'rolledout-handover,handover-2rev,handover-3rev', 'race', 'api', 160, 3000, 140),
        ('teardown-atomic', TEARDOWN, 'teardown', 'atomic', 80, 1000, 70)])),
    'C06': dict(level='model_checking', invariants=INV['C06'], assumptions=ASSUME, mc=design_mc(MCINV['C06']), jobs=sched_jobs([
        ('all-atomic', ROLLOUT + ',' + TEARDOWN, 'all', 'atomic', 120, 2000, 80),
        ('all-api', ROLLOUT + ',' + TEARDOWN, 'all', 'api', 120, 2000, 150)])),
    'C07': dict(level='model_checking', invariants=INV['C07'], assumptions=ASSUME, mc=deploy_mc('C07'), jobs=sched_jobs([
        ('deploy-atomic', DEPLOY, 'deploy', 'atomic', 120, 2000, 120),
        ('deploy-api', DEPLOY, 'deploy', 'api', 160, 3000, 250)])),
    'C08': dict(level='model_checking', invariants=INV['C08'], assumptions=ASSUME, mc=lambda tier: deploy_mc('C08')(tier) + teardown_race_mc(tier), jobs=sched_jobs([
        ('deploy-atomic', DEPLOY, 'deploy', 'atomic', 160, 3000, 160),
        ('deploy-api', DEPLOY, 'deploy', 'api', 120, 2000, 250),
        # an object shared by a revision's local phase and another revision's delegated phase: the two controllers race
        ('deploy-race-api', 'deploy-delegated-3rev,deploy-delegated', 'deploy-race', 'api', 160, 3000, 500)])),
    'C09': dict(level='model_checking', invariants=INV['C09'], assumptions=ASSUME, mc=lambda tier: design_mc(MCINV['C09'])(tier) + phase_mc(tier), jobs=lambda tier, seed: [
        dict(name='package-pause', shards=4 if tier == 'quick' else 14,
             driver=['package-walk', '-mode', 'atomic', '-n', '80' if tier == 'quick' else T(2000), '-steps', '70', '-seed', str(seed)])] + sched_jobs([
        ('pause-atomic', ROLLOUT + ',' + HANDOVER + ',collision', 'pause', 'atomic', 120, 2000, 80),
        ('pause-api', ROLLOUT + ',' + HANDOVER + ',collision', 'pause', 'api', 120, 2000, 150),
        ('deploy-pause', DEPLOY, 'deploy-pause', 'atomic', 80, 1500, 160)])(tier, seed)),
    'C10': dict(level='fault_enumeration', invariants=INV['C10'], mc=live_mc, assumptions=ASSUME + [
        'fair schedule after the last disturbance = round-robin over all PKO objects, workload controller makes Widgets Ready',
        'drift domain: content edits, deletion, cache-label removal, revision-annotation removal of managed objects (owner edits are takeovers, see C01)'],
        jobs=lambda tier, seed: [
            dict(name='fault-sweep', shards=8 if tier == 'quick' else 14,
                 driver=['fault-sweep', '-n', '60' if tier == 'quick' else '400', '-seed', str(seed)]),
            dict(name='fault-pairs', shards=4 if tier == 'quick' else 14,
                 driver=['fault-sweep', '-mode', 'pairs', '-n', '20' if tier == 'quick' else '400', '-seed', str(seed)]),
            # states no event leads out of (refused adoption, preflight error) persisting over several passes: is the retry armed every time?
            dict(name='stuck-retry', shards=4 if tier == 'quick' else 14, invariants=['Inv_C10_RetryArmed', 'Inv_C11_ViolationReported', 'Inv_C19_NoPanic'],
                 driver=['random', '-scenarios', 'collision,handover-2rev,handover-cpnone,handover-ifnoctrl', '-profile', 'collision', '-mode', 'atomic',
                         '-n', '80' if tier == 'quick' else T(3000), '-steps', '60', '-seed', str(seed)])]),
    'C12': dict(level='model_checking', invariants=INV['C12'], module='TraceDynCache',
                assumptions=['scripted informer map and stub informers replace client-go informers; the Cache, its locking, reference bookkeeping and cache source are the real code',
                             'concurrent callers: only data races (go -race is not used in the quick tier) and the quiescent end state are checked, intra-lock interleavings are reached by chance'],
                mc=lambda tier: [dict(name='dyncache', kind='plain', module='MC_DynCache', cfg='MC_DynCache_intended.cfg'),
                                 # unbounded in the number of operations: Apalache proves the property as an inductive invariant
                                 dict(name='dyncache-inductive', kind='apalache', module='DynCacheTyped'),
                                 # negative controls: the two defects found (and fixed) in /repo, at the design level
                                 dict(name='dyncache-asfound', kind='plain', module='MC_DynCache', cfg='MC_DynCache_asfound.cfg',
                                      expect_violation='Inv_C12_InformerIffOwned'),
                                 dict(name='dyncache-refonly', kind='plain', module='MC_DynCache', cfg='MC_DynCache_refonly.cfg',
                                      expect_violation='Inv_C12_InformerIffOwned')],
                jobs=lambda tier, seed: [
                    dict(name='c12-enum', module='TraceDynCache', shards=4 if tier == 'quick' else 14,
                         driver=['c12-seq', '-mode', 'enum', '-steps', '3' if tier == 'quick' else '4']),
                    dict(name='c12-random', module='TraceDynCache', shards=4 if tier == 'quick' else 14,
                         driver=['c12-seq', '-mode', 'random', '-n', '400' if tier == 'quick' else T(20000), '-steps', '14', '-seed', str(seed)]),
                    # the real InformerMap against a list/watch server: streams and event delivery (spec/TraceDynCacheReal.tla)
                    dict(name='c12-real', module='TraceDynCacheReal', shards=4 if tier == 'quick' else 14,
                         invariants=['Inv_C12_MatchesReferenceModel', 'Inv_C12_InformerIffOwned', 'Inv_C12_HandlersAttached'],
                         driver=['c12-real', '-n', '0', '-steps', '2' if tier == 'quick' else '3']),
                    dict(name='c12-stress', module='TraceDynCache', shards=4 if tier == 'quick' else 14,
                         driver=['c12-stress', '-n', '40' if tier == 'quick' else T(2000), '-steps', '60', '-seed', str(seed)])]),
    'C13': dict(level='model_checking', invariants=INV['C13'], module='TraceRender', mc=package_env_mc,
                assumptions=['abstract package domain: 6 pooled file paths (plain, nested, templates with include helper, conditional path), 1-3 documents each with phase / CEL attributes',
                             'each package is rendered repeatedly in one process (Go randomises map iteration per range loop)'],
                level_text='Every abstract package (all subsets of the file pool exhaustively, document attributes seeded) is concretised into real package files and rendered repeatedly through the real structural loader, RenderPackageInstance, RenderObjectSetTemplateSpec and FNV hash; TLC compares the outcome with the TLA+ function Render!Expected, checks determinism and the template function allow list.',
                jobs=lambda tier, seed: [dict(name='render-table', module='TraceRender', shards=8 if tier == 'quick' else 14,
                                              driver=['render-table', '-n', '300' if tier == 'quick' else T(20000), '-steps', '12' if tier == 'quick' else '60', '-seed', str(seed)]),
                                         # the environment as render input, through the real Package controller and its environment sink:
                                         # two Packages of one image in a plain and in a hosted cluster's namespace (spec/TraceObs.tla)
                                         dict(name='package-env', module='TraceObs', shards=4 if tier == 'quick' else 14,
                                              invariants=['Inv_C13_UnchangedPackageKeepsTemplate', 'Inv_C16_TemplateIsRender', 'Inv_C19_NoPanic'],
                                              driver=['package-walk', '-profile', 'env', '-mode', 'atomic', '-n', '40' if tier == 'quick' else T(1500), '-steps', '80', '-seed', str(seed)]),
                                         # a phase of more than 1 MiB goes through the default chunker (bin-packing into ObjectSlices): every object
                                         # exactly once, in its phase, in order - judged against the reference render with the slices inlined
                                         dict(name='package-big', module='TraceObs', shards=4 if tier == 'quick' else 14,
                                              invariants=['Inv_C13_UnchangedPackageKeepsTemplate', 'Inv_C16_TemplateIsRender', 'Inv_C14_SliceContent', 'Inv_C19_NoPanic'],
                                              driver=['package-walk', '-profile', 'big', '-mode', 'atomic', '-n', '8' if tier == 'quick' else '200', '-steps', '60', '-seed', str(seed)])]),
    'C16': dict(level='model_checking', invariants=INV['C16'], mc=package_mc, assumptions=ASSUME + [
        'the registry is scripted (fixture packages per image reference); loader, validators, renderer, deployer and chunker are the real code',
        'reference render for Inv_C16_TemplateIsRender = the same pipeline invoked directly on the current spec in a fault-free call'],
        jobs=lambda tier, seed: [
            dict(name='package-atomic', shards=4 if tier == 'quick' else 14,
                 driver=['package-walk', '-mode', 'atomic', '-n', '90' if tier == 'quick' else T(3000), '-steps', '70', '-seed', str(seed)]),
            dict(name='package-api', shards=4 if tier == 'quick' else 14,
                 driver=['package-walk', '-mode', 'api', '-n', '90' if tier == 'quick' else T(3000), '-steps', '160', '-seed', str(seed)])]),
    'C17': dict(level='model_checking', invariants=INV['C17'], module='TraceProbing',
                assumptions=['abstract row domain: selectors {none,match,mismatch}^2, sub-probes condition/fieldsEqual/CEL, object status shapes incl. malformed conditions; observedGeneration values are integers'],
                level_text='Every row of the abstract probe-list x object table (single-entry lists exhaustively, longer lists sampled/seeded) is concretised, run through the real internal/probing.Parse and pkg/probing probers, and TLC compares verdict, number of reported failures, parse errors and object immutability with the TLA+ function Probing!Pass.',
                jobs=lambda tier, seed: [dict(name='probe-table', module='TraceProbing', shards=8 if tier == 'quick' else 14,
                                              driver=['probe-table', '-n', '4000' if tier == 'quick' else T(300000), '-seed', str(seed)])]),
    'C18': dict(level='model_checking', mc=template_mc, invariants=INV['C18'], assumptions=ASSUME + [
        'reconciles are triggered through the real EnqueueWatchingObjects handler (changes of cache-labelled objects of watched kinds) and RequeueAfter timers',
        'template domain: one template family (required + optional ConfigMap source), unparsable template, out-of-namespace source / target'],
        jobs=lambda tier, seed: [dict(name='template-walk', shards=4 if tier == 'quick' else 14,
                                      driver=['template-walk', '-n', '140' if tier == 'quick' else T(7000), '-steps', '14', '-seed', str(seed)]),
                                 # template-walk runs on a model of the dynamic cache (watch references, label-filtered events); the real
                                 # dynamiccache.Cache is held against the same reference model here: a template deleted and created again
                                 # (Watch, Free, Watch) must get its event handlers attached again, a freed kind serves nobody
                                 dict(name='dyncache-enum', module='TraceDynCache', shards=4 if tier == 'quick' else 14, invariants=INV['C12'],
                                      driver=['c12-seq', '-mode', 'enum', '-steps', '3' if tier == 'quick' else '4'])]),
    'C19': dict(level='exploration', invariants=INV['C19'], module='TraceShapes',
                assumptions=['reduced scope: shape classes of the inputs that reach a type assertion, index expression or validated-elsewhere assumption; byte-level inputs are NOT covered (the technique cannot quantify over byte strings)',
                             'every other check of this framework also treats a recovered panic in a reconcile pass as a C19 violation (Inv_C19_NoPanic in TraceObs)'],
                level_text='Exploration: every shape class declared in spec/Shapes.tla (condition-map annotations, manifests, object documents, OCI layers, status shapes of managed and templated objects, ObjectTemplate source items and outputs) is run through the real entry point (package pipeline, kubectl-package tree/validate, ObjectSet and ObjectTemplate reconciles) under recover with a watchdog; TLC checks that no row panics or times out and that the declared domain was covered.',
                jobs=lambda tier, seed: [dict(name='shape-table', module='TraceShapes', shards=1, driver=['shape-table'])]),
    'C20': dict(level='model_checking', invariants=INV['C20'], module='TraceReqMgr',
                assumptions=['the registry pull is a gated test function installed through a build-tag guarded accessor; RequestManager, its lock, channels and deep copies are the real code',
                             'interleavings inside the mutex-protected sections are reached only by chance (stress driver)'],
                mc=lambda tier: [dict(name='reqmgr', kind='plain', module='MC_ReqMgr', cfg='MC_ReqMgr.cfg'),
                                 # negative control: the in-flight map keyed by repository (seeded change, round 5)
                                 dict(name='reqmgr-keybyrepo', kind='plain', module='MC_ReqMgr', cfg='MC_ReqMgr_keybyrepo.cfg',
                                      expect_violation='Inv_C20_RightContent')],
                jobs=lambda tier, seed: [
                    dict(name='c20-enum', module='TraceReqMgr', shards=8 if tier == 'quick' else 14,
                         driver=['c20-script', '-mode', 'enum', '-steps', '4' if tier == 'quick' else '5']),
                    dict(name='c20-random', module='TraceReqMgr', shards=4 if tier == 'quick' else 14,
                         driver=['c20-script', '-mode', 'random', '-n', '200' if tier == 'quick' else T(5000), '-steps', '16', '-seed', str(seed)]),
                    dict(name='c20-stress', module='TraceReqMgr', shards=4 if tier == 'quick' else 14,
                         driver=['c20-stress', '-n', '16' if tier == 'quick' else '400', '-steps', '40', '-seed', str(seed)])]),
    'C14': dict(level='model_checking', assumptions=ASSUME, mc=deploy_mc('C14'),
                invariants=INV['C14'] + INV['C03'] + INV['C04'] + INV['C05'] + INV['C06'] + ['Inv_C09_NoWritesWhilePaused'],
                jobs=lambda tier, seed: [
                    dict(name='differential-c14', shards=5 if tier == 'quick' else 14, driver=['differential', '-profile', 'c14']),
                    dict(name='package-history', shards=4 if tier == 'quick' else 14,
                         driver=['package-history', '-n', '24' if tier == 'quick' else '800', '-steps', '8', '-seed', str(seed)]),
                    dict(name='package-collide', shards=4 if tier == 'quick' else 14,
                         driver=['package-walk', '-profile', 'collide', '-mode', 'api', '-n', '40' if tier == 'quick' else T(1500), '-steps', '160', '-seed', str(seed)]),
                    dict(name='package-sliced', shards=4 if tier == 'quick' else 14,
                         driver=['package-walk', '-mode', 'api', '-n', '60' if tier == 'quick' else T(2000), '-steps', '160', '-seed', str(seed)]),
                    rnd('sliced-atomic', 'sliced', 'all', 'atomic', 80 if tier == 'quick' else TN(2000), 90, seed, 4 if tier == 'quick' else 14),
                    rnd('sliced-api', 'sliced', 'all', 'api', 80 if tier == 'quick' else TN(2000), 160, seed, 4 if tier == 'quick' else 14)]),
    'C15': dict(level='model_checking', assumptions=ASSUME, mc=phase_mc,
                invariants=INV['C15'] + INV['C01'] + INV['C02'] + INV['C03'] + INV['C04'] + INV['C05'] + INV['C06'] + ['Inv_C09_NoWritesWhilePaused'],
                jobs=lambda tier, seed: [
                    dict(name='differential-c15', shards=5 if tier == 'quick' else 14, driver=['differential', '-profile', 'c15']),
                    rnd('delegated-atomic', 'delegated-mixed,delegated-handover,delegated-handover-recreated,local-to-delegated,rolledout-delegated,paused-start', 'all', 'atomic',
                        80 if tier == 'quick' else TN(2000), 90, seed, 4 if tier == 'quick' else 14),
                    rnd('delegated-api', 'delegated-mixed,delegated-handover,delegated-handover-recreated,local-to-delegated,rolledout-delegated,paused-start', 'all', 'api',
                        80 if tier == 'quick' else TN(2000), 160, seed, 4 if tier == 'quick' else 14),
                    dict(name='adopt-table-annotation', shards=4 if tier == 'quick' else 14,
                         driver=['adopt-table', '-n', '1500' if tier == 'quick' else T(20000), '-seed', str(seed + 11)], invariants=INV['C01'])]),
    'C11': dict(level='model_checking', invariants=INV['C11'], assumptions=ASSUME, jobs=lambda tier, seed: [
        # the scope rule for ObjectTemplates (sources and target of a namespaced template stay in its namespace; cluster-scoped kinds are out of reach)
        dict(name='template-scope', shards=4 if tier == 'quick' else 14, invariants=['Inv_C11_Scope', 'Inv_C18_InvalidNoWrite', 'Inv_C19_NoPanic'],
             driver=['template-walk', '-n', '56' if tier == 'quick' else T(2800), '-steps', '10', '-seed', str(seed)]),
        dict(name='preflight-table', shards=8 if tier == 'quick' else 14,
             driver=['preflight-table', '-n', '1500' if tier == 'quick' else '0', '-seed', str(seed)])]),
}

TV = 'TLC trace validation: every API call of the real controllers (built from /repo, run under a deterministic scheduler against an in-memory API server) is one event; spec/TraceObs.tla rebuilds the store and per-pass observations and its invariants are evaluated on every state'
TECHNIQUES = {
    'C07': 'TLA+ model-based: exhaustive TLC check of the revision-layer design model spec/PKODeploy.tla (ObjectDeployment controller per API call, with and without cache lag; design-level reproduction of the known finding as negative control); ' + TV,
    'C08': 'TLA+ model-based: exhaustive TLC check of the revision-layer design model spec/PKODeploy.tla (archive / prune decisions per API call) and of the two-controller teardown/adoption race model spec/PKOTeardownRace.tla (negative controls); ' + TV,
    'C10': 'TLA+ model-based fault enumeration: a staged scenario is run once undisturbed and once per API-call index x disturbance kind on the real controllers; TLC (spec/TraceObs.tla) tracks the store from the events and compares its end state with the reference digest; plus TLC liveness checking of the design model spec/PKO.tla under fairness (FixedSpec: repaired, quiescent, teardown completes) and under its work queue (spec/PKOTriggered.tla: a pass starts only for an enqueued set; lost-retry negative control)',
    'C11': 'TLA+ model-based: preflight decision table (classes x owner kinds x rollout/teardown) run through the real controllers; ' + TV + ' with the row classes as independent oracle',
    'C12': 'TLA+ model-based: exhaustive TLC check of the reference model spec/DynCache.tla (intended + as-found variants as negative controls); enumerated and random operation sequences and concurrent stress on the real dynamiccache.Cache validated by TLC against the model (spec/TraceDynCache.tla: state and result equality after every call); the real InformerMap against a list/watch server (spec/TraceDynCacheReal.tla: one open stream per owned kind, events reach every handler)',
    'C13': 'TLA+ model-based: rendering specified as a pure function (spec/Render.tla); abstract packages concretised and rendered repeatedly by the real pipeline; TLC (spec/TraceRender.tla) compares every outcome with Expected(p); the environment as render input and the chunker beyond the slice limit through the real Package controller, traces validated by TLC (spec/TraceObs.tla), with the design model spec/PKOPackage.tla (shared environment sink, negative control) checked exhaustively',
    'C14': 'TLA+ model-based: exhaustive TLC check of spec/PKODeploy.tla (deployer with slices and slice GC; design-level reproduction of the known GC race as negative control); differential sliced-vs-inline runs and package update histories on the real controllers; ' + TV,
    'C15': 'TLA+ model-based: exhaustive TLC check (safety + liveness) of the delegated-phase protocol model spec/PKOPhase.tla (decision function spec/RemotePhase.tla); differential delegated-vs-local runs and seeded schedules of the real ObjectSet / ObjectSetPhase controllers; ' + TV + ' (C01-C06, C09 invariants on delegated scenarios)',
    'C16': 'TLA+ model-based: exhaustive TLC check of the Package controller model spec/PKOPackage.tla (unpack / deploy / record per API call; the known finding as negative control, the atomic variant incl. liveness); seeded histories of Package edits, faults and conflicts on the real Package controller + deployer; ' + TV + ' (reference render = the same pipeline called directly)',
    'C17': 'TLA+ model-based: probing specified as a function of abstract (probe list, object) rows (spec/Probing.tla); rows concretised and run through the real parser and probes; TLC (spec/TraceProbing.tla) compares verdict and messages',
    'C18': 'TLA+ model-based: exhaustive TLC check (safety + liveness) of the ObjectTemplate controller model spec/PKOTemplate.tla (triggers, label-filtered events, retry timers; two seeded defects as negative controls); seeded histories on the real ObjectTemplate controller with reconciles triggered through the real EnqueueWatchingObjects handler and RequeueAfter timers; ' + TV,
    'C19': 'TLA+ model-based (reduced scope): the domain of input shape classes is declared in spec/Shapes.tla; every row is run through its real entry point (recover + watchdog, recursion rows in child processes); TLC (spec/TraceShapes.tla) checks no row panics / hangs and the domain is covered',
    'C20': 'TLA+ model-based: exhaustive TLC check of spec/ReqMgr.tla at critical-section granularity incl. liveness (no lost wake-up) under fairness; enumerated and random scripts (arrivals, completions, failures, cancellation) and free-running stress on the real RequestManager validated by TLC (spec/TraceReqMgr.tla)',
}

for _pid, _cd in CHECKS.items():
    if _pid in TECHNIQUES:
        _cd.setdefault('technique', TECHNIQUES[_pid])
    _cd.setdefault('level_text', LEVEL_TEXT)
    _cd.setdefault('level_note', LEVEL_NOTE)
    _cd.setdefault('technique', TECH)
