#!/bin/bash
# setup: warm the Go build cache by building the harness once, parse all TLA+ modules.
set -euo pipefail
cd "$(dirname "$(dirname "$(realpath "$0")")")"
mkdir -p .work evidence
bin/build.sh "$PWD/.work/build"
mkdir -p .work/sany && cp spec/*.tla .work/sany/ && cd .work/sany
for f in *.tla; do
  case "$f" in Trace*|MC_*|PKO.tla) timeout 120 tla-sany "$f" > /dev/null || { echo "SANY failed on $f"; exit 1; } ;; esac
done
echo setup ok
