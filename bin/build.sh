#!/bin/bash
# Build the harness binaries from /repo's current working tree with the /verif harness overlaid.
# usage: build.sh <workdir>   → <workdir>/pkosim
set -euo pipefail
W=$(realpath -m ${1:?workdir})
mkdir -p "$W"
V=$(dirname "$(dirname "$(realpath "$0")")")
REPO=${VERIF_REPO:-/repo}
python3 - "$W" "$V" "$REPO" <<'PY'
import json,sys,os,glob
W,V,R=sys.argv[1:4]
rep={}
for f in glob.glob(V+'/harness/sim/*.go'):
    rep[R+'/internal/verifsim/'+os.path.basename(f)]=f
rep[R+'/cmd/verif-pkosim/main.go']=V+'/harness/cmd/main.go'
for f in glob.glob(V+'/harness/inpkg/*/*.go'):
    # inpkg/<pkg path with __ as separator>/<file>  → /repo/<pkg path>/<file>
    d=os.path.basename(os.path.dirname(f)).replace('__','/')
    rep[R+'/'+d+'/'+os.path.basename(f)]=f
json.dump({'Replace':rep},open(W+'/overlay.json','w'),indent=1)
PY
cd "$REPO"
export GOPROXY=off GOFLAGS=
go build -tags verif -overlay "$W/overlay.json" -o "$W/pkosim" ./cmd/verif-pkosim
