#!/bin/bash
# Build the harness binaries from /repo's current working tree with the /verif harness overlaid.
# usage: build.sh <workdir>   → <workdir>/pkosim
set -euo pipefail
W=$(realpath -m ${1:?workdir})
mkdir -p "$W"
V=/verif/harness
python3 - "$W" <<'PY'
import json,sys,os,glob
W=sys.argv[1]
rep={}
for f in glob.glob('/verif/harness/sim/*.go'):
    rep['/repo/internal/verifsim/'+os.path.basename(f)]=f
rep['/repo/cmd/verif-pkosim/main.go']='/verif/harness/cmd/main.go'
for f in glob.glob('/verif/harness/inpkg/*/*.go'):
    # inpkg/<pkg path with __ as separator>/<file>  → /repo/<pkg path>/<file>
    d=os.path.basename(os.path.dirname(f)).replace('__','/')
    rep['/repo/'+d+'/'+os.path.basename(f)]=f
json.dump({'Replace':rep},open(W+'/overlay.json','w'),indent=1)
PY
cd /repo
export GOPROXY=off GOFLAGS=
go build -tags verif -overlay "$W/overlay.json" -o "$W/pkosim" ./cmd/verif-pkosim
