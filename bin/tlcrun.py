"""TLC invocation helpers for trace validation (one pass per trace file, all violations reported)."""
import os, re, json, shutil, subprocess

V = os.path.dirname(os.path.dirname(os.path.realpath(__file__)))
JAVA = ['java', '-XX:+UseParallelGC', '-cp',
        '/opt/veriftools/tla/tla2tools.jar:/opt/veriftools/tla/CommunityModules-deps.jar', 'tlc2.TLC']


class Broken(Exception):
    pass


def sh(cmd, **kw):
    return subprocess.run(cmd, stdout=subprocess.PIPE, stderr=subprocess.STDOUT, text=True, **kw)


CHECK_TMPL = """---- MODULE TraceCheck ----
EXTENDS %(module)s
CONSTANT CheckSet
Holds(n) == CASE %(arms)s
    [] OTHER -> TRUE
Report == \\A n \\in CheckSet : Holds(n) \\/ PrintT(<<"VIOL", n, lw.e.i>>)
NextR == Next /\\ Report'
SpecR == Init /\\ [][NextR]_vars
====
"""


def gen_check_module(jobdir, module, invariants):
    """TraceCheck.tla EXTENDS the trace spec; every step evaluates the selected invariants on the new state and
    prints <<"VIOL", name, event>> for each false one, so one TLC pass reports every violation of every scenario."""
    src = open('%s/spec/%s.tla' % (V, module)).read()
    names = re.findall(r'^((?:(?:Inv|Act)_C\d+|Conf)_\w+)\s*==', src, re.M)
    missing = [i for i in invariants if i not in names]
    if missing:
        raise Broken('unknown invariants %s in %s' % (missing, module))
    arms = ' []\n    '.join('n = "%s" -> %s' % (n, n) for n in names)
    open(jobdir + '/TraceCheck.tla', 'w').write(CHECK_TMPL % dict(module=module, arms=arms))


def split_scenarios(path):
    """split an ndjson trace into scenarios (each begins with a Reset event)"""
    scs, cur = [], []
    with open(path) as f:
        for line in f:
            if '"ev":"Reset"' in line and cur:
                scs.append(cur)
                cur = []
            cur.append(line)
    if cur:
        scs.append(cur)
    return scs


def run_tlc(jobdir, module, invariants, tracefile, heap='3g', extra_cfg='', timeout=3600):
    """validate one trace file in ONE pass; returns dict(status=done|rejected|error, viols=[(inv, event)], ...)"""
    for f in os.listdir(V + '/spec'):
        if f.endswith('.tla'):
            shutil.copy(V + '/spec/' + f, jobdir)
    gen_check_module(jobdir, module, invariants)
    cfg = ['SPECIFICATION SpecR', 'CONSTANT TraceFile = "%s"' % os.path.basename(tracefile),
           'CONSTANT CheckSet = {%s}' % ', '.join('"%s"' % i for i in invariants),
           'CHECK_DEADLOCK FALSE', 'POSTCONDITION Accepted', 'ALIAS Alias']
    if extra_cfg:
        cfg.append(extra_cfg)
    open(jobdir + '/trace.cfg', 'w').write('\n'.join(cfg) + '\n')
    meta = jobdir + '/meta'
    shutil.rmtree(meta, ignore_errors=True)
    # TLC unpacks its standard modules into java.io.tmpdir: keep that inside the job directory, not /tmp
    os.makedirs(jobdir + '/jtmp', exist_ok=True)
    cmd = [JAVA[0], '-Xmx' + heap, '-Xss64m', '-Djava.io.tmpdir=' + jobdir + '/jtmp'] + JAVA[1:] + ['-workers', '1', '-metadir', meta, '-config', 'trace.cfg', 'TraceCheck.tla']
    try:
        r = sh(cmd, cwd=jobdir, timeout=timeout)
    except subprocess.TimeoutExpired:
        return dict(status='error', detail='TLC timeout')
    out = r.stdout
    shutil.rmtree(meta, ignore_errors=True)
    shutil.rmtree(jobdir + '/jtmp', ignore_errors=True)
    st = re.search(r'(\d+) states generated, (\d+) distinct states found', out)
    states = int(st.group(2)) if st else 0
    gen = int(st.group(1)) if st else 0
    viols = [(m.group(1), int(m.group(2))) for m in re.finditer(r'<<"VIOL", "(\w+)", (\d+)>>', out)]
    # keep the log small: drop the (possibly huge) state dump
    open(jobdir + '/tlc.out', 'w').write(out[:20000] + ('\n...\n' + out[-5000:] if len(out) > 25000 else ''))
    if 'Model checking completed. No error has been found' in out:
        return dict(status='done', viols=viols, states=states, transitions=gen)
    if 'Postcondition Accepted' in out and 'is false' in out:
        return dict(status='rejected', viols=viols, states=states, transitions=gen)
    return dict(status='error', detail=out[-2000:])


def validate_trace(jobdir, module, invariants, tracefile, max_rejects=3):
    """one TLC pass per trace file; if the trace spec cannot consume an event (rejection) that scenario is cut out
    and the rest is validated again, so that every scenario is examined."""
    scs = split_scenarios(tracefile)
    violations, states, transitions = [], 0, 0
    nscen = len(scs)
    events = sum(len(s) for s in scs)
    cur = scs
    rejects = 0
    while cur:
        tf = jobdir + '/cur.ndjson'
        with open(tf, 'w') as f:
            for s in cur:
                f.writelines(s)
        r = run_tlc(jobdir, module, invariants, tf)
        if r['status'] == 'error':
            raise Broken('TLC failed on %s: %s' % (tracefile, r.get('detail')))
        states += r['states']
        transitions += r['transitions']
        bounds = [(json.loads(s[0])['i'], json.loads(s[-1])['i'], s) for s in cur]
        for inv, evno in r['viols']:
            for lo, hi, s in bounds:
                if lo <= evno <= hi:
                    if any(v['lines'] is s and v['invariant'] == inv for v in violations):
                        break
                    ev = next(json.loads(x) for x in s if json.loads(x)['i'] == evno)
                    violations.append(dict(invariant=inv, event=ev, scenario=json.loads(s[0])['args'].get('scenario', ''), lines=s))
                    break
        if r['status'] == 'done':
            break
        consumed = r['states'] - 1
        acc, idx = 0, None
        for i, s in enumerate(cur):
            if acc + len(s) > consumed:
                idx = i
                break
            acc += len(s)
        if idx is None:
            raise Broken('trace rejected but all events consumed?')
        s = cur[idx]
        ev = json.loads(s[min(consumed - acc, len(s) - 1)])
        violations.append(dict(invariant='__rejected__', event=ev, scenario=json.loads(s[0])['args'].get('scenario', ''), lines=s))
        rejects += 1
        if rejects >= max_rejects:
            break
        cur = cur[idx + 1:]   # everything before idx was validated in this pass
    return dict(violations=violations, states=states, transitions=transitions, scenarios=nscen, events=events)
