SPECIFICATION Spec
CONSTANTS
  Sets <- MCSets
  Objs <- MCObjs
  Phases <- MCPhases
  PrevSeq <- MCPrev
  CP <- MCCP
  Probed <- MCProbed
  InitSets <- MCInit
  EnvBudget = 2
  WorkBudget = 2
  CrashBudget = 1
  MaxVer = 12
CONSTRAINT VerBound
CHECK_DEADLOCK FALSE
INVARIANT TypeOK
INVARIANT Inv_C01_WriteOnlyIfPermitted
INVARIANT Inv_C01_PermittedIsDone
INVARIANT Act_C02_RevisionMonotone
INVARIANT Inv_C02_SingleController
INVARIANT Inv_C02_NoTakeFromNewer
INVARIANT Act_C02_RevisionFixed
INVARIANT Inv_C03_Gate
INVARIANT Inv_C04_ReverseOrder
INVARIANT Inv_C04_FinalizerHeld
INVARIANT Inv_C04_NothingControlledWhenReleased
INVARIANT Inv_C05_DeletedWasControlled
INVARIANT Inv_C05_CoOwned
INVARIANT Inv_C05_Orphan
INVARIANT Inv_C06_AvailableJustified
INVARIANT Inv_C06_ControllerOfSeen
INVARIANT Act_C06_SucceededSticky
INVARIANT Inv_C06_Archived
INVARIANT Inv_C09_NoWritesWhilePaused
