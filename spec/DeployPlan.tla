----------------------------- MODULE DeployPlan -----------------------------
(***************************************************************************)
(* What one pass of the ObjectDeployment controller decides, as a pure     *)
(* function of what it read (internal/controllers/objectdeployments:       *)
(* objectset_reconciler.go, new_revision_reconciler.go,                    *)
(* archive_reconciler.go).                                                 *)
(*                                                                         *)
(*   snap : [paused, hash, limit, nonEmpty]  the deployment as read:       *)
(*          spec.paused, hash(template, status.collisionCount) computed by *)
(*          the pass, revisionHistoryLimit (default applied), template has *)
(*          phases                                                         *)
(*   L    : [names -> [ex, rev, avail, life, mark, stPaused, cofSet, cof,  *)
(*          objs, hash]]  the ObjectSets the pass listed (ex = FALSE: not  *)
(*          listed): status.revision, Available=True, spec.lifecycleState, *)
(*          paused-by-parent annotation, Paused=True, controllerOf         *)
(*          reported / its keys, the inline objects of its phases, hash    *)
(*          annotation                                                     *)
(*                                                                         *)
(* Plan(snap, L) is the sequence of write requests of the pass, in order   *)
(* ([op, n] with op in mark | unmark | pause | archive | create | del; a   *)
(* create carries prev = the names it lists as previous revisions).  A     *)
(* request that fails ends the pass (Delete: NotFound is ignored).         *)
(*                                                                         *)
(* Used by the design model PKODeploy.tla and - on every recorded pass of  *)
(* the real controller - by the trace specification TraceObs.tla           *)
(* (Conf_DeployPlan), which binds the two.                                 *)
(***************************************************************************)
EXTENDS Integers, Sequences, FiniteSets, TLC

Listed(L) == { n \in DOMAIN L : L[n].ex }
MaxRevOf(S, L) == IF S = {} THEN 0 ELSE CHOOSE r \in { L[n].rev : n \in S } : \A m \in S : L[m].rev <= r

\* ascending by status.revision (ties: any fixed order)
RECURSIVE Sorted(_, _)
Sorted(S, L) ==
    IF S = {} THEN <<>>
    ELSE LET m == CHOOSE x \in S : \A y \in S : L[x].rev <= L[y].rev IN << m >> \o Sorted(S \ {m}, L)

\* the newest listed ObjectSet is current iff its hash annotation equals the hash the pass computed ({} or a singleton)
CurrentOf(snap, L) ==
    LET s == Sorted(Listed(L), L) IN
    IF s # <<>> /\ L[s[Len(s)]].hash = snap.hash THEN { s[Len(s)] } ELSE {}
PrevOf(snap, L) == Listed(L) \ CurrentOf(snap, L)

\* pause propagation: every non-archived revision whose paused-by-parent state differs from spec.paused
ByParent(r) == r.life = "Paused" /\ r.mark
RECURSIVE ParentOps(_, _, _)
ParentOps(s, L, paused) ==
    IF s = <<>> THEN <<>>
    ELSE LET n == Head(s)
             here == IF L[n].life = "Archived" \/ paused = ByParent(L[n]) THEN <<>>
                     ELSE << [op |-> IF paused THEN "mark" ELSE "unmark", n |-> n] >>
         IN here \o ParentOps(Tail(s), L, paused)

\* the in-memory copies after the propagation loop
AfterParent(L, paused) ==
    [ n \in DOMAIN L |-> IF ~L[n].ex \/ L[n].life = "Archived" \/ paused = ByParent(L[n]) THEN L[n]
                         ELSE IF paused THEN [ L[n] EXCEPT !.life = "Paused", !.mark = TRUE ]
                         ELSE [ L[n] EXCEPT !.life = "Active", !.mark = FALSE ] ] @@ <<>>     \* (@@ materialises the function for TLC)

\* ensurePaused
EnsP(L, p) == IF L[p].stPaused THEN [ ok |-> TRUE, ops |-> <<>> ]
              ELSE IF L[p].life = "Paused" THEN [ ok |-> FALSE, ops |-> <<>> ]
              ELSE [ ok |-> FALSE, ops |-> << [op |-> "pause", n |-> p] >> ]

\* archiveAllLaterRevisions(c, all[1..j-1])
RECURSIVE ArchEarlier(_, _, _)
ArchEarlier(s, c, L) ==
    IF s = <<>> THEN [ elig |-> {}, ops |-> <<>> ]
    ELSE LET p == Head(s)
             rest == ArchEarlier(Tail(s), c, L)
         IN IF L[p].life = "Archived" \/ ~(L[p].rev < L[c].rev) THEN rest
            ELSE LET e == EnsP(L, p) IN
                 [ elig |-> (IF e.ok THEN {p} ELSE {}) \cup rest.elig, ops |-> e.ops \o rest.ops ]

\* objectSetsToBeArchived: walk from the newest revision down
RECURSIVE ArchWalk(_, _, _)
ArchWalk(all, j, L) ==
    IF j < 1 THEN [ elig |-> {}, ops |-> <<>> ]
    ELSE LET c == all[j] IN
         IF L[c].avail THEN ArchEarlier(SubSeq(all, 1, j - 1), c, L)
         ELSE IF j = 1 THEN [ elig |-> {}, ops |-> <<>> ]
         ELSE LET p == all[j - 1]
                  rest == ArchWalk(all, j - 1, L)
              IN IF L[p].life = "Archived" \/ L[c].rev <= L[p].rev \/ ~L[p].cofSet
                    \/ (L[c].objs \cap L[p].cof) # {} \/ L[p].avail
                 THEN rest
                 ELSE LET e == EnsP(L, p) IN
                      \* the walk goes from new to old: this candidate's pause request precedes those of older ones
                      [ elig |-> (IF e.ok THEN {p} ELSE {}) \cup rest.elig, ops |-> e.ops \o rest.ops ]

\* garbageCollectRevisions: the len(prev) - limit oldest previous revisions, oldest first, stopping at the first one that
\* is NOT archived (fix 244db63: a revision that is not archived may still be serving; before the fix the oldest k were
\* deleted whatever their state)
PruneAnyState == FALSE       \* TRUE (negative control only): the code before fix 244db63
RECURSIVE PruneFrom(_, _, _)
PruneFrom(s, k, L) ==
    IF s = <<>> \/ k <= 0 THEN <<>>
    ELSE IF PruneAnyState \/ L[Head(s)].life = "Archived" THEN << [op |-> "del", n |-> Head(s)] >> \o PruneFrom(Tail(s), k - 1, L)
    ELSE <<>>
PruneOps(prevSorted, limit, L) == PruneFrom(prevSorted, Len(prevSorted) - limit, L)

\* markObjectSetsForArchival: in ascending revision order; pruning after each archived candidate (which sees the
\* candidates archived so far as archived: the list entries are the objects just updated)
RECURSIVE MarkOps(_, _, _, _)
MarkOps(s, L, prevSorted, limit) ==
    IF s = <<>> THEN <<>>
    ELSE LET arch == L[Head(s)].life # "Archived" /\ L[Head(s)].stPaused
             L2 == IF arch THEN [ L EXCEPT ![Head(s)].life = "Archived" ] ELSE L
         IN (IF arch THEN << [op |-> "archive", n |-> Head(s)] >> ELSE <<>>)
            \o PruneOps(prevSorted, limit, L2) \o MarkOps(Tail(s), L2, prevSorted, limit)

\* the whole pass after the list
Plan(snap, L0) ==
    LET all  == Sorted(Listed(L0), L0)
        cur  == CurrentOf(snap, L0)
        prev == Sorted(PrevOf(snap, L0), L0)
        L    == AfterParent(L0, snap.paused)
    IN IF \E n \in Listed(L0) : L0[n].rev = 0 THEN <<>>        \* wait until every revision reports its number
       ELSE ParentOps(all, L0, snap.paused) \o
            (IF snap.paused THEN <<>>
             ELSE IF cur = {}
               THEN (IF ~snap.nonEmpty THEN <<>>
                     ELSE << [op |-> "create", n |-> snap.hash, prev |-> PrevOf(snap, L0)] >>)
               ELSE LET w == ArchWalk(all, Len(all), L) IN
                    w.ops \o MarkOps(Sorted(w.elig, L), L, prev, snap.limit))
=============================================================================
