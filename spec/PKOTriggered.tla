---------------------------- MODULE PKOTriggered ----------------------------
(***************************************************************************)
(* The ObjectSet controller of PKO.tla driven by its WORK QUEUE instead of *)
(* by fairness alone: a pass starts only for a set that was enqueued.      *)
(* PKO!FairSpec reconciles every set infinitely often, which hides a lost  *)
(* wake-up; here a set is enqueued only by what enqueues it in the real    *)
(* manager (internal/controllers/objectsets/objectset_controller.go,       *)
(* SetupWithManager and Reconcile's results):                              *)
(*                                                                         *)
(*  - For(ObjectSet, GenerationChangedPredicate): creation, a spec change, *)
(*    the deletion timestamp - NOT the controller's own status writes;     *)
(*  - the dynamic cache source with EnqueueRequestForOwner: a create /     *)
(*    update / delete event of an object that carries the cache label      *)
(*    (before or after the change), of a kind with a running informer,     *)
(*    enqueues every ObjectSet named in the owner references of the old or *)
(*    the new object (matched by name, not uid);                           *)
(*  - the result of a pass: an error (conflicts, failed lookups) re-       *)
(*    enqueues with back-off; "waiting for the previous revisions' numbers"*)
(*    and a reported collision (UpdateObjectSetOrPhaseStatusFromError)     *)
(*    re-enqueue after a delay; everything else - also an unfinished       *)
(*    teardown - relies on events;                                         *)
(*  - a restart enqueues every existing set.                               *)
(*                                                                         *)
(* Checked: the liveness properties of PKO.tla (C10) under this schedule.  *)
(* Negative control RetryOnRefusal = FALSE (seeded changes C10 round 4 and *)
(* C11 round 3: an unchanged condition returns before the requeue is       *)
(* armed): a third party takes an object over and deletes it later; no     *)
(* event names the set, it is never reconciled again, the object stays     *)
(* missing - Live_C10_ObjectsRepaired fails.                               *)
(***************************************************************************)
EXTENDS PKO

VARIABLE queue        \* sets waiting in the work queue
tvars == <<obj, cr, pc, dyn, budget, lastw, uidc, queue>>

RetryOnRefusal == TRUE          \* overridden by the negative control

NamesOwner(s, owners) == \E i \in DOMAIN owners : owners[i].id = s

\* sets enqueued by the step vars -> vars'
Started  == IF pc.st = "idle" /\ pc'.st # "idle" THEN {pc'.s} ELSE {}
PassEnds == pc.st # "idle" /\ pc'.st = "idle"
Crashed  == budget'.crash < budget.crash
Requeued ==
    IF PassEnds /\ ~Crashed
         /\ \/ lastw'.valid /\ lastw'.actor = "os" /\ lastw'.x \in {"Conflict", "Invalid", "NotFound"}     \* error
            \/ pc.st \in {"RevGet", "PrevLookup"}                                                      \* error: previous revision not found
            \/ pc.st = "Status" /\ pc.requeue                                                          \* waiting for revision numbers
            \/ pc.st = "ErrStatus" /\ RetryOnRefusal                                                   \* collision reported: retry later
      THEN {pc.s} ELSE {}
ObjEvents ==
    { s \in Sets : \E o \in Objs :
          /\ obj'[o] # obj[o]
          /\ obj[o].cache \/ obj'[o].cache                                   \* label-filtered informers
          /\ \E s2 \in Sets : <<s2, o>> \in dyn \cup dyn'                     \* an informer for the kind is running
          /\ NamesOwner(s, obj[o].owners) \/ NamesOwner(s, obj'[o].owners) }
CrEvents  == { s \in Sets : cr'[s].exists # cr[s].exists \/ cr'[s].gen # cr[s].gen \/ cr'[s].deleting # cr[s].deleting }
CrashEv   == IF Crashed THEN { s \in Sets : cr[s].exists } ELSE {}

Gate      == (pc.st = "idle" /\ pc'.st # "idle") => pc'.s \in queue
QueueStep == queue' = ((queue \ Started) \cup Requeued \cup ObjEvents \cup CrEvents \cup CrashEv)

TOS       == OSNext /\ Gate /\ QueueStep
TDisturb  == DisturbNext /\ QueueStep
TInit     == Init /\ queue = InitSets
TNext     == TOS \/ TDisturb
\* fairness: a pass in flight continues, a queued set is eventually started (the queue is FIFO)
TSpec     == TInit /\ [][TNext]_tvars /\ WF_tvars(TOS)
             /\ \A s \in Sets : SF_tvars(OS_Begin(s) /\ Gate /\ QueueStep)

TTypeOK == queue \subseteq Sets
\* the queue drains: once the disturbances are over, the work queue is eventually empty for good unless a set keeps
\* retrying a collision / a missing previous revision
Live_C10_QueueDrains ==
    <>[](Quiet => \A s \in queue : \/ cr[s].avail = "CollisionDetected"
                                    \/ ~RevisionKnowable(s)
                                    \/ pc.st # "idle")
=============================================================================
