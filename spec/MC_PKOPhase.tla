---- MODULE MC_PKOPhase ----
EXTENDS PKOPhase
MCDeleg2 == {2}
MCDeleg13 == {1, 3}
MCDeleg23 == {2, 3}
====
