------------------------------- MODULE PKOCore -------------------------------
(***************************************************************************)
(* Pure operators shared by the design model (PKO.tla / MC_*.tla) and the  *)
(* trace specifications (Trace*.tla): ownership strategies, the adoption   *)
(* decision ladder, the standard availability probe, the archive decision. *)
(* Everything here is constant-level: no variables.                        *)
(*                                                                         *)
(* An object is a record (the projection written by the harness):          *)
(*   [exists, kind, uid, rv, gen, ns, owners, aowners, rev, cache, pkoLabel,     *)
(*    fin, deleting, spec, probe, cr]                                      *)
(* owners / aowners : Seq([id, uid, ctrl])  (native refs / owners annot.)  *)
(***************************************************************************)
EXTENDS Naturals, Sequences, FiniteSets

Range(s) == { s[i] : i \in DOMAIN s }

SeqToSet(s) == Range(s)

(* ---- ownership (boxcutter ownerhandling: native and annotation strategy) ---- *)

\* the owner list a strategy looks at
OwnersOf(strategy, o) == IF strategy = "annotation" THEN o.aowners ELSE o.owners

RefersTo(e, oid, ouid) == e.id = oid /\ e.uid = ouid

IsControllerL(oid, ouid, owners) ==
    \E i \in DOMAIN owners : RefersTo(owners[i], oid, ouid) /\ owners[i].ctrl

IsOwnerL(oid, ouid, owners) ==
    \E i \in DOMAIN owners : RefersTo(owners[i], oid, ouid)

HasControllerL(owners) == \E i \in DOMAIN owners : owners[i].ctrl

NumControllers(owners) == Cardinality({ i \in DOMAIN owners : owners[i].ctrl })

IsController(strategy, oid, ouid, o) == o.exists /\ IsControllerL(oid, ouid, OwnersOf(strategy, o))
IsOwner(strategy, oid, ouid, o)      == o.exists /\ IsOwnerL(oid, ouid, OwnersOf(strategy, o))

Demote(owners) == [ i \in DOMAIN owners |-> [ owners[i] EXCEPT !.ctrl = FALSE ] ]

\* ReleaseController + SetControllerReference of the adopting owner (native strategy)
AfterAdoptNative(oid, ouid, owners) ==
    LET d == Demote(owners) IN
    IF IsOwnerL(oid, ouid, d)
      THEN [ i \in DOMAIN d |-> IF RefersTo(d[i], oid, ouid) THEN [ d[i] EXCEPT !.ctrl = TRUE ] ELSE d[i] ]
      ELSE Append(d, [ id |-> oid, uid |-> ouid, ctrl |-> TRUE ])

\* boxcutter ownerhandling remove(): the first matching entry is overwritten by the LAST entry, the list shortened by one
RemoveOwnerL(oid, ouid, owners) ==
    LET idx == { i \in DOMAIN owners : RefersTo(owners[i], oid, ouid) } IN
    IF idx = {} THEN owners
    ELSE LET f == CHOOSE i \in idx : \A j \in idx : i <= j
             n == Len(owners) IN
         [ i \in 1..(n - 1) |-> IF i = f THEN owners[n] ELSE owners[i] ]

(* ---- adoption ladder: controllers/phase_reconciler.go defaultAdoptionChecker.Check ---- *)

\* prev : SUBSET [id, uid, remote : Seq([id, uid, ctrl])]   previous revisions as the pass resolved them
ControlledByPrevious(strategy, o, prev) ==
    \E p \in prev :
        \/ IsController(strategy, p.id, p.uid, o)
        \/ \E j \in DOMAIN p.remote :
               IsController(strategy, p.remote[j].id, p.remote[j].uid, o)

Adopt(strategy, oid, ouid, orev, o, prev, cp, forced) ==
    IF IsController(strategy, oid, ouid, o)                       THEN "AlreadyOwner"
    ELSE IF o.rev > orev                                          THEN "SkipNewer"
    ELSE LET ecp == IF forced \/ o.pkoLabel THEN "None" ELSE cp IN
         IF ecp = "None"                                          THEN "Adopt"
    ELSE IF ecp = "IfNoController" /\ ~HasControllerL(OwnersOf(strategy, o)) THEN "Adopt"
    ELSE IF ~ControlledByPrevious(strategy, o, prev)              THEN "RefuseNotPrevious"
    ELSE IF o.rev = orev                                          THEN "RefuseRevCollision"
    ELSE                                                               "Adopt"

IsRefusal(v) == v \in {"RefuseNotPrevious", "RefuseRevCollision"}

\* The statement of C01 in its own words (independent of the ladder above): adoption is permitted iff
\* the recorded revision is not higher than the owner's and
\*   None/forced: always;  IfNoController: additionally if it has no controller;
\*   otherwise its controller is a declared previous revision with a lower recorded revision.
AdoptionPermitted(strategy, oid, ouid, orev, o, prev, cp, forced) ==
    /\ o.rev <= orev
    /\ \/ forced \/ o.pkoLabel \/ cp = "None"
       \/ cp = "IfNoController" /\ ~HasControllerL(OwnersOf(strategy, o))
       \/ ControlledByPrevious(strategy, o, prev) /\ o.rev < orev

(* ---- the harness's standard availability probe (Widget: Available=True, current generation) ---- *)

\* probe verdict of object o (the projection carries the kind)
Passes(o) ==
    /\ o.exists
    /\ IF o.kind = "Widget" THEN o.probe = "Ready" ELSE TRUE

(* ---- conditions of PKO CRs ---- *)

HasCond(cr, type)  == \E i \in DOMAIN cr.conds : cr.conds[i].type = type
CondOf(cr, type)   == cr.conds[CHOOSE i \in DOMAIN cr.conds : cr.conds[i].type = type]
CondTrue(cr, type) == HasCond(cr, type) /\ CondOf(cr, type).status = "True"
CondIs(cr, type, status, reason) ==
    HasCond(cr, type) /\ CondOf(cr, type).status = status /\ CondOf(cr, type).reason = reason

=============================================================================
