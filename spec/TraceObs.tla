------------------------------ MODULE TraceObs ------------------------------
(***************************************************************************)
(* Trace specification, observer form (DESIGN §5.2).                       *)
(*                                                                         *)
(* Consumes one ndjson trace recorded from the REAL controllers (harness   *)
(* pkosim).  It rebuilds, event by event,                                  *)
(*   - the API store (Store semantics: every write event must start from   *)
(*     the state the previous events left and its logged effect is         *)
(*     applied),                                                           *)
(*   - per reconcile pass: what the pass has read, dry-run-checked,        *)
(*     observed, decided and written so far,                               *)
(* and evaluates the property invariants Inv_Cxx_* / Act_Cxx_* on every    *)
(* state.  All invariants are phrased on `lw` (the event just consumed)    *)
(* and the pass record, i.e. they relate each API request to what the same *)
(* pass had read before — the form of the listed properties.               *)
(***************************************************************************)
EXTENDS PKOCore, Integers, TLC, Json

CONSTANT TraceFile

Trace == ndJsonDeserialize(TraceFile)

VARIABLES l,      \* cursor into Trace
          store,  \* [Keys -> object]
          pass,   \* [PassIds -> pass record]
          lw,     \* [valid, e] the event consumed by the last step
          hist,   \* history: CR keys that have ever stored Succeeded=True / Archived=True
          scen    \* description of the current table row (Row event), if any

vars == <<l, store, pass, lw, hist, scen>>

Keys    == { Trace[i].key : i \in DOMAIN Trace }
\* one slot per controller: passes of the same controller never overlap (MaxConcurrentReconciles=1)
PassIds == { Trace[i].actor : i \in DOMAIN Trace }

Absent == Trace[1].pre          \* the first event is a Reset whose pre/post are the empty projection

NoRow == [ row |-> -1 ]

NoRead == [ valid |-> FALSE, o |-> Absent ]
NoObs  == [ valid |-> FALSE, present |-> FALSE, passes |-> FALSE, ctrl |-> FALSE, probe |-> "None" ]

IdlePass == [ active |-> FALSE, actor |-> "", target |-> "", oid |-> "", ouid |-> "", strategy |-> "native",
              forced |-> FALSE, hasSnap |-> FALSE, snap |-> Absent, orev |-> 0, prev |-> {}, prevSeen |-> {},
              reads |-> [ k \in Keys |-> NoRead ],      \* last read of k in this pass (dynamic cache or uncached)
              unc |-> [ k \in Keys |-> NoRead ],        \* last UNCACHED read of k in this pass
              dryok |-> {},                             \* keys whose dry-run preflight was accepted
              dryseen |-> {},                           \* keys whose dry-run preflight was attempted
              obs |-> [ k \in Keys |-> NoObs ],         \* what the pass observed about k (probe input)
              verdict |-> [ k \in Keys |-> "" ],        \* adoption ladder on the state read
              writes |-> <<>>,                          \* keys of non-dry state-changing writes on managed keys
              sliceObjs |-> [ k \in Keys |-> <<>> ],
              sliceLoaded |-> {}, sliceMissing |-> {},   \* slices read / read as NotFound in this pass
              apiErr |-> FALSE, calls |-> 0, status |-> Absent, statusWritten |-> FALSE,
              finRemoved |-> FALSE,
              listed |-> <<>>, hasList |-> FALSE,       \* deployment controller: the ObjectSets it listed
              clash |-> "",
              gone404 |-> {},
              created |-> FALSE,
              pulled |-> "",                             \* package controller: class of the content pulled in this pass
              phfirst |-> [ k \in Keys |-> NoRead ],   \* ObjectSet controller: FIRST read of each phase object in this pass
              phw |-> <<>>,                             \* ObjectSet controller: its write requests on phase objects <<key, verb>>
              odw |-> <<>>,                             \* deployment controller: its write requests on ObjectSets, classified (DeployPlan ops)
              gcSeen |-> {},                            \* package controller: uids of the ObjectSets that existed when it listed them for slice GC
              sliceSeq |-> <<>>,                          \* package controller: <<name, content>> per chunk, in chunk order
              nf |-> {} ]                                \* keys an uncached Get of this pass did not find      \* package controller: content hash of the slice it wanted under name k                        \* deployment controller: this pass created an ObjectSet                           \* keys whose Delete was answered with NotFound                             \* deployment controller: key whose Create hit AlreadyExists

Init == /\ l = 1
        /\ store = [ k \in Keys |-> Absent ]
        /\ pass = [ p \in PassIds |-> IdlePass ]
        /\ lw = [ valid |-> FALSE, e |-> Trace[1], conf |-> TRUE, confR |-> TRUE ]
        /\ hist = [ succeeded |-> {}, archived |-> {}, creates |-> [ k \in Keys |-> 0 ], unpacked |-> [ k \in Keys |-> "" ], deployedFor |-> [ k \in Keys |-> <<"", "", "">> ] ]
        /\ scen = NoRow

(* ---------------- helpers over a pass record ---------------- *)

IsSetActor(a)   == a \in {"os", "cos"}
IsPhaseActor(a) == a \in {"ph", "cph"}
IsOwnerActor(a) == IsSetActor(a) \/ IsPhaseActor(a)
IsDepActor(a)   == a \in {"od", "cod"}
IsPkgActor(a)   == a \in {"pk", "cpk"}

Flatten(ss) == \* concatenation of a sequence of sequences
    LET F[i \in 0..Len(ss)] == IF i = 0 THEN <<>> ELSE F[i - 1] \o ss[i] IN F[Len(ss)]

\* objects of phase j of the pass's owner, slices inlined from the slice objects this pass loaded
PhaseObjKeys(pr, j) ==
    LET ph == pr.snap.cr.phases[j] IN
    ph.keys \o Flatten([ i \in DOMAIN ph.slices |-> pr.sliceObjs[ph.slices[i]] ])

NPhases(pr) == Len(pr.snap.cr.phases)

IsDelegated(pr, j) == pr.snap.cr.phases[j].class # ""

\* the keys the ObjectSet controller itself writes for phase j
PhaseWriteKeys(pr, j) ==
    IF IsDelegated(pr, j) THEN { pr.snap.cr.phases[j].phaseKey } ELSE Range(PhaseObjKeys(pr, j))

ManagedKeys(pr) == UNION { PhaseWriteKeys(pr, j) : j \in 1..NPhases(pr) }
\* k was seen present and passing in this pass (a key that never occurs in the trace - a phase object never created - was not)
ObsOK(pr, k) == k \in Keys /\ pr.obs[k].valid /\ pr.obs[k].present /\ pr.obs[k].passes

\* every object key listed in the owner (inline or via loaded slices), delegated or not
ListedObjKeys(pr) == UNION { Range(PhaseObjKeys(pr, j)) : j \in 1..NPhases(pr) }

PhaseOf(pr, k) == CHOOSE j \in 1..NPhases(pr) : k \in PhaseWriteKeys(pr, j)

IsPhaseKey(pr, k) == \E j \in 1..NPhases(pr) : IsDelegated(pr, j) /\ k = pr.snap.cr.phases[j].phaseKey

IsDelegatedKey(pr, k) == IsSetActor(pr.actor) /\ \E j \in 1..NPhases(pr) : IsDelegated(pr, j) /\ k \in Range(PhaseObjKeys(pr, j))

PhaseOfObj(pr, k) == CHOOSE j \in 1..NPhases(pr) : k \in Range(PhaseObjKeys(pr, j))

CPOf(pr, k) ==
    LET j == PhaseOf(pr, k)
        ph == pr.snap.cr.phases[j]
        idx == { i \in DOMAIN ph.keys : ph.keys[i] = k } IN
    IF idx = {} THEN "Prevent" ELSE ph.cps[CHOOSE i \in idx : TRUE]

SnapDeleting(pr) == pr.snap.deleting
SnapArchived(pr) == pr.snap.cr.lifecycle = "Archived"
SnapPaused(pr)   == pr.snap.cr.lifecycle = "Paused"
Teardown(pr)     == pr.hasSnap /\ (SnapDeleting(pr) \/ (IsSetActor(pr.actor) /\ SnapArchived(pr)))
Rollout(pr)      == pr.hasSnap /\ ~Teardown(pr)

IsCtrl(pr, o)  == IsController(pr.strategy, pr.oid, pr.ouid, o)
IsOwn(pr, o)   == IsOwner(pr.strategy, pr.oid, pr.ouid, o)

ObsOf(pr, o) == [ valid |-> TRUE, present |-> o.exists, passes |-> Passes(o), ctrl |-> IsCtrl(pr, o), probe |-> o.probe ]

\* delegated phase: the phase object as read by the ObjectSet pass
RemoteObs(o) == [ valid |-> TRUE, present |-> o.exists,
                  passes |-> o.exists /\ HasCond(o.cr, "Available") /\ CondOf(o.cr, "Available").status = "True"
                                      /\ CondOf(o.cr, "Available").cur,
                  ctrl |-> TRUE, probe |-> "None" ]

\* the declared previous revisions the pass decides with: those it looked up as it saw them; one it did NOT look up
\* before judging an object is taken as it is (the statement speaks of the DECLARED previous revisions - a pass
\* that skips the lookup cannot make a permitted adoption a collision)
PrevEff(pr) ==
    pr.prev \cup { [ id |-> store[x].oid, uid |-> store[x].uid, remote |-> store[x].cr.remotePhases ] :
                      x \in { y \in Range(pr.snap.cr.previous) \cap Keys : y \notin pr.prevSeen /\ store[y].exists } }

Verdict(pr, k, o) ==
    IF ~o.exists THEN "Create"
    ELSE Adopt(pr.strategy, pr.oid, pr.ouid, pr.orev, o, PrevEff(pr), CPOf(pr, k), pr.forced)

(* ---------------- event consumption ---------------- *)

\* key of the ObjectDeployment that controls ObjectSet o ("" if none) — the harness logs it as depKey
DeploymentOf(o) == o.cr.depKey

E == Trace[l]
IsEv(name) == l <= Len(Trace) /\ E.ev = name
Advance == l' = l + 1 /\ lw' = [ valid |-> TRUE, e |-> E, conf |-> TRUE, confR |-> TRUE ]

SetStore(k, o) == store' = [ store EXCEPT ![k] = o ]

TrReset ==
    /\ IsEv("Reset")
    /\ store' = [ k \in Keys |-> Absent ]
    /\ pass' = [ p \in PassIds |-> IdlePass ]
    /\ hist' = [ succeeded |-> {}, archived |-> {}, creates |-> [ k \in Keys |-> 0 ], unpacked |-> [ k \in Keys |-> "" ], deployedFor |-> [ k \in Keys |-> <<"", "", "">> ] ]
    /\ scen' = NoRow
    /\ Advance

TrRow ==
    /\ IsEv("Row")
    /\ scen' = E.args
    /\ UNCHANGED <<store, pass, hist>>
    /\ Advance

\* environment: the logged effect is applied; the logged pre-state must be the tracked state
TrEnv ==
    /\ l <= Len(Trace) /\ E.actor = "env" /\ E.ev # "Crash"
    /\ E.pre = store[E.key]
    /\ SetStore(E.key, E.post)
    /\ hist' = IF E.pre.kind \in {"ObjectDeployment", "ClusterObjectDeployment"} /\ E.pre.cr.tmplHash # E.post.cr.tmplHash
                 THEN [ hist EXCEPT !.creates[E.key] = 0 ]
               ELSE IF E.pre.kind \in {"ObjectSet", "ClusterObjectSet"} /\ ~E.post.exists /\ DeploymentOf(E.pre) \in Keys
                 THEN [ hist EXCEPT !.creates[DeploymentOf(E.pre)] = 0 ]
               ELSE hist
    /\ UNCHANGED <<pass, scen>>
    /\ Advance

TrCrash ==
    /\ IsEv("Crash")
    /\ pass' = [ p \in PassIds |-> [ pass[p] EXCEPT !.active = FALSE ] ]
    /\ UNCHANGED <<store, hist, scen>>
    /\ Advance

TrPassBegin ==
    /\ IsEv("PassBegin")
    /\ pass' = [ pass EXCEPT ![E.actor] = [ IdlePass EXCEPT !.active = TRUE, !.actor = E.actor, !.target = E.key,
                                            !.oid = E.args.oid, !.strategy = E.args.strategy, !.forced = E.args.forced ] ]
    /\ UNCHANGED <<store, hist, scen>>
    /\ Advance

---------------------------------------------------------------------------
(* Conformance of the deployment controller with the design model's decision function (DeployPlan!Plan): the write
   requests of every recorded pass are exactly what Plan computes from what the pass read - a prefix of it if the
   pass ended with an error.  A divergence means the model PKODeploy.tla no longer describes the code (it is
   reported as CONFORMANCE-DIVERGENCE, not as a violation of a property). *)
DP == INSTANCE DeployPlan

HistLimit(pr) == IF pr.snap.cr.histLimit < 0 THEN 10 ELSE pr.snap.cr.histLimit
IsDepActorA(a) == a \in {"od", "cod"}

LifeOf(c) == IF c.lifecycle = "" THEN "Active" ELSE c.lifecycle
PlanL(pr) ==
    LET ks == { pr.listed[i].key : i \in DOMAIN pr.listed } IN
    [ n \in ks |->
        LET x == pr.listed[CHOOSE i \in DOMAIN pr.listed : pr.listed[i].key = n] IN
        [ ex |-> TRUE, rev |-> x.cr.revision, avail |-> CondTrue(x.cr, "Available"), life |-> LifeOf(x.cr),
          mark |-> x.cr.pausedByParent, stPaused |-> CondTrue(x.cr, "Paused"), cofSet |-> ~x.cr.cofNil,
          cof |-> Range(x.cr.controllerOf),
          objs |-> UNION { Range(x.cr.phases[j].keys) : j \in DOMAIN x.cr.phases },      \* inline objects only, as the code reads them
          hash |-> x.cr.hash ] ] @@ <<>>          \* (@@ materialises the function: TLC would re-evaluate the body on every access)
\* the hash the pass computed: in the status it wrote, else in the ObjectSet it tried to create
OdHash(pr) == IF pr.statusWritten THEN pr.status.cr.hash
              ELSE IF \E i \in DOMAIN pr.odw : pr.odw[i].op = "create" THEN pr.odw[CHOOSE i \in DOMAIN pr.odw : pr.odw[i].op = "create"].n
              ELSE ""
PlanSnapOf(pr) == [ paused |-> pr.snap.cr.paused, hash |-> OdHash(pr), limit |-> HistLimit(pr), nonEmpty |-> pr.snap.cr.phases # <<>> ]
IsPrefixOf(a, b) == Len(a) <= Len(b) /\ \A i \in DOMAIN a : a[i] = b[i]
NoTies(pr) == \A i, j \in DOMAIN pr.listed : i # j => (pr.listed[i].cr.revision # pr.listed[j].cr.revision \/ pr.listed[i].cr.revision = 0)
                                                        /\ pr.listed[i].key # pr.listed[j].key

\* evaluated on the (unprimed) pass record while the PassEnd event is consumed, and remembered in lw.conf: TLC caches
\* lazily evaluated arguments only outside primed contexts, and the invariants are evaluated primed (Report')
ConfDeployOK(e) ==
    LET pr == pass[e.actor] IN
    (IsDepActorA(e.actor) /\ e.ev = "PassEnd" /\ pr.hasSnap /\ pr.hasList /\ NoTies(pr) /\ OdHash(pr) # "")
    => LET exp == DP!Plan(PlanSnapOf(pr), PlanL(pr))
       IN IF e.res = "ok" /\ ~pr.apiErr THEN pr.odw = exp ELSE IsPrefixOf(pr.odw, exp)

\* Conformance of the ObjectSet controller's handling of delegated phases with RemotePhase!RemoteOp: for every phase
\* object the phase loop reached, the write it requested (create / pause patch / none) is the one the decision
\* function computes from the first read of that object in the pass.
RP == INSTANCE RemotePhase
PhRec(o) == [ ex |-> o.exists, paused |-> IF o.exists THEN o.cr.paused ELSE FALSE, gen |-> o.gen, avail |-> "none", availGen |-> 0 ]
ConfRemoteOK(e) ==
    LET pr == pass[e.actor] IN
    (IsSetActor(e.actor) /\ e.ev = "PassEnd" /\ pr.hasSnap /\ Rollout(pr))
    => \A j \in 1..NPhases(pr) :
         (IsDelegated(pr, j) /\ pr.snap.cr.phases[j].phaseKey \in Keys /\ pr.phfirst[pr.snap.cr.phases[j].phaseKey].valid
            /\ \A i \in 1..(j - 1) : \A x \in PhaseWriteKeys(pr, i) : ObsOK(pr, x))
         => LET k == pr.snap.cr.phases[j].phaseKey
                op == RP!RemoteOp(SnapPaused(pr), PhRec(pr.phfirst[k].o))
                did(v) == \E i \in DOMAIN pr.phw : pr.phw[i] = <<k, v>>
                any == \E i \in DOMAIN pr.phw : pr.phw[i][1] = k
            IN /\ IF e.res = "ok" /\ ~pr.apiErr
                    THEN (op = "create" => did("Create")) /\ (op = "patch" => did("MergePatch")) /\ (op = "none" => ~any)
                    ELSE any => ((op = "create" /\ did("Create")) \/ (op = "patch" /\ did("MergePatch")))
               \* the pass that creates the phase object ends with an error (RemotePhase!CreateAbortsPass)
               /\ (RP!PassAborts(SnapPaused(pr), PhRec(pr.phfirst[k].o)) /\ did("Create") /\ ~pr.apiErr) => e.res = "err"

TrPassEnd ==
    /\ (IsEv("PassEnd") \/ IsEv("Panic") \/ IsEv("Timeout"))
    /\ pass' = [ pass EXCEPT ![E.actor].active = (E.ev = "Panic") ]
    /\ UNCHANGED <<store, hist, scen>>
    /\ l' = l + 1 /\ lw' = [ valid |-> TRUE, e |-> E, conf |-> ConfDeployOK(E), confR |-> ConfRemoteOK(E) ]

\* misc harness events that carry no state
TrNote ==
    /\ (IsEv("Note") \/ IsEv("Quiesced") \/ IsEv("C16Template") \/ IsEv("C18Check"))
    /\ UNCHANGED <<store, pass, hist, scen>>
    /\ Advance

IsRead(ev)  == ev \in {"Get", "DynGet"}
IsWrite(ev) == ev \in {"Create", "Update", "ApplyPatch", "MergePatch", "JSONPatch", "Delete", "StatusUpdate", "StatusPatch"}

\* a read by a controller pass
TrRead ==
    /\ l <= Len(Trace) /\ E.actor \notin {"env", "sim"} /\ IsRead(E.ev)
    /\ LET p  == E.actor
           pr == pass[p]
           k  == E.key
           ok == E.res = "ok"
           nf == E.res = "NotFound"
           o  == IF ok THEN E.post ELSE Absent
           isTarget == k = pr.target
           \* uncached (or dynamic-cache hits): must equal the store the spec tracks
           consistent == (E.role = "uncached" /\ (ok \/ nf)) => o = store[k]
       IN
       /\ consistent
       /\ IF ~(ok \/ nf)
            THEN pass' = [ pass EXCEPT ![p].apiErr = TRUE, ![p].calls = @ + 1 ]
          ELSE IF isTarget /\ ~pr.hasSnap
            THEN \* first read of the reconciled object: the pass's snapshot
                 pass' = [ pass EXCEPT ![p].hasSnap = ok, ![p].snap = o, ![p].ouid = o.uid,
                                       ![p].orev = IF o.cr.revision # 0 THEN o.cr.revision
                                                   ELSE IF o.cr.previous = <<>> THEN 1 ELSE 0,
                                       ![p].calls = @ + 1 ]
          ELSE IF IsOwnerActor(pr.actor) /\ pr.hasSnap /\ k \in Range(pr.snap.cr.previous) /\ E.role = "client"
            THEN \* previous revision lookup
                 pass' = [ pass EXCEPT ![p].prev = @ \cup { IF ok THEN [ id |-> o.oid, uid |-> o.uid, remote |-> o.cr.remotePhases ]
                                                                  ELSE [ id |-> "", uid |-> "", remote |-> <<>> ] },
                                       ![p].prevSeen = @ \cup {k},
                                       ![p].calls = @ + 1 ]
          ELSE IF IsSetActor(pr.actor) /\ pr.hasSnap /\ (\E j \in 1..NPhases(pr) : k \in Range(pr.snap.cr.phases[j].slices))
            THEN pass' = [ pass EXCEPT ![p].sliceObjs[k] = IF ok THEN o.cr.objects ELSE <<>>,
                                       ![p].sliceLoaded = @ \cup {k},
                                       ![p].sliceMissing = IF nf THEN @ \cup {k} ELSE @ \ {k}, ![p].calls = @ + 1 ]
          ELSE IF IsSetActor(pr.actor) /\ pr.hasSnap
                  /\ (\E j \in 1..NPhases(pr) : IsDelegated(pr, j) /\ k = pr.snap.cr.phases[j].phaseKey)
            THEN pass' = [ pass EXCEPT ![p].reads[k] = [ valid |-> TRUE, o |-> o ],
                                       ![p].phfirst[k] = IF @.valid THEN @ ELSE [ valid |-> TRUE, o |-> o ],
                                       ![p].unc[k] = IF E.role = "uncached" THEN [ valid |-> TRUE, o |-> o ] ELSE @,
                                       ![p].obs[k] = IF Rollout(pr) /\ ~pr.obs[k].valid THEN RemoteObs(o) ELSE @,
                                       ![p].calls = @ + 1 ]
          ELSE IF IsOwnerActor(pr.actor) /\ pr.hasSnap /\ k \in ListedObjKeys(pr)
            THEN pass' = [ pass EXCEPT ![p].reads[k] = [ valid |-> TRUE, o |-> o ],
                                       ![p].unc[k] = IF E.role = "uncached" THEN [ valid |-> TRUE, o |-> o ] ELSE @,
                                       ![p].obs[k] = ObsOf(pr, o),
                                       ![p].verdict[k] = IF Rollout(pr) /\ ~SnapPaused(pr) /\ ~IsDelegatedKey(pr, k)
                                                           THEN Verdict(pr, k, o) ELSE @,
                                       ![p].prev = PrevEff(pr), ![p].prevSeen = @ \cup (Range(pr.snap.cr.previous) \cap Keys),
                                       ![p].calls = @ + 1 ]
          ELSE pass' = [ pass EXCEPT ![p].calls = @ + 1, ![p].nf = IF nf /\ E.role = "uncached" THEN @ \cup {k} ELSE @ ]
    /\ UNCHANGED <<store, hist, scen>>
    /\ Advance

\* registry pull by the package controller
TrPull ==
    /\ IsEv("Pull")
    /\ pass' = [ pass EXCEPT ![E.actor].calls = @ + 1, ![E.actor].pulled = E.args.class,
                              ![E.actor].apiErr = @ \/ (E.res # "ok" /\ E.args.class # "pullError") ]
    /\ UNCHANGED <<store, hist, scen>>
    /\ Advance

\* dynamic cache bookkeeping and list calls: no store effect
TrOther ==
    /\ l <= Len(Trace) /\ E.actor \notin {"env", "sim"} /\ E.ev \in {"Watch", "Free", "List", "DynList"}
    /\ pass' = [ pass EXCEPT ![E.actor].calls = @ + 1, ![E.actor].apiErr = @ \/ E.res # "ok",
                              ![E.actor].listed = IF E.ev = "List" /\ E.res = "ok" /\ IsDepActor(E.actor) THEN E.args.items ELSE @,
                              ![E.actor].hasList = @ \/ (E.ev = "List" /\ E.res = "ok" /\ IsDepActor(E.actor)),
                              ![E.actor].gcSeen = IF E.ev = "List" /\ E.res = "ok" /\ IsPkgActor(E.actor) /\ E.args.kind \in {"ObjectSet", "ClusterObjectSet"}
                                                    THEN { store[k].uid : k \in { x \in Keys : store[x].exists /\ store[x].kind \in {"ObjectSet", "ClusterObjectSet"} } }
                                                    ELSE @ ]
    /\ UNCHANGED <<store, hist, scen>>
    /\ Advance

Changed(e) == e.pre # e.post

\* a write request of the deployment controller on an ObjectSet, in the vocabulary of DeployPlan.tla
OdOp(pr, e, k) ==
    IF e.ev = "Create" THEN [ op |-> "create", n |-> e.args.body.cr.hash, prev |-> Range(e.args.body.cr.previous) ]
    ELSE IF e.ev = "Delete" THEN [ op |-> "del", n |-> k ]
    ELSE LET b == e.args.body.cr IN
         [ op |-> IF b.lifecycle = "Archived" THEN "archive"
                  ELSE IF b.lifecycle = "Paused" THEN (IF pr.hasSnap /\ pr.snap.cr.paused /\ b.pausedByParent THEN "mark" ELSE "pause")
                  ELSE "unmark",
           n |-> k ]

TrWrite ==
    /\ l <= Len(Trace) /\ E.actor \notin {"env", "sim"} /\ IsWrite(E.ev)
    /\ LET p  == E.actor
           pr == pass[p]
           k  == E.key
           ok == E.res = "ok"
       IN
       /\ E.res # "NoMatch" => E.pre = store[k]                 \* the write starts from the tracked state
       /\ (E.dry \/ (~ok /\ ~E.args.lost)) => E.post = E.pre         \* dry runs and failed calls have no effect
       /\ SetStore(k, IF E.res = "NoMatch" THEN store[k] ELSE E.post)
       /\ hist' = [ succeeded |-> IF E.post.exists /\ CondTrue(E.post.cr, "Succeeded") THEN hist.succeeded \cup {<<k, E.post.uid>>} ELSE hist.succeeded,
                    archived  |-> IF E.post.exists /\ CondTrue(E.post.cr, "Archived") THEN hist.archived \cup {<<k, E.post.uid>>} ELSE hist.archived,
                    \* creates for the deployment's CURRENT template (a create issued from a stale snapshot of an older
                                    \* template belongs to that older epoch and is judged by Inv_C07_CreateJustified only)
                    creates   |-> IF IsDepActor(E.actor) /\ E.ev = "Create" /\ ~E.dry /\ E.post.exists /\ ~E.pre.exists /\ pr.hasSnap
                                     /\ store[pr.target].exists /\ E.post.cr.tmplHash = store[pr.target].cr.tmplHash
                                    THEN [ hist.creates EXCEPT ![pr.target] = @ + 1 ]
                                  ELSE IF E.pre.exists /\ ~E.post.exists /\ E.pre.kind \in {"ObjectSet", "ClusterObjectSet"} /\ DeploymentOf(E.pre) \in Keys
                                    THEN [ hist.creates EXCEPT ![DeploymentOf(E.pre)] = 0 ]
                                  ELSE hist.creates,
                    \* package controller persisted a (new) unpackedHash: remember for which spec
                    \* (also when only the response was lost: the effect is what counts)
                    unpacked  |-> IF IsPkgActor(E.actor) /\ E.ev = "StatusUpdate" /\ k = pr.target /\ pr.hasSnap
                                     /\ E.post.cr.hash # E.pre.cr.hash
                                    THEN [ hist.unpacked EXCEPT ![k] = pr.snap.cr.tmplHash ]
                                  ELSE hist.unpacked,
                    \* the Package spec (image, config, component) a deployment's template was last written from
                    \* (the deployer creates the deployment with an empty template and fills it with an Update in the same pass)
                    deployedFor |-> IF IsPkgActor(E.actor) /\ E.ev = "Update" /\ ~E.dry /\ pr.hasSnap /\ E.post.exists
                                       /\ E.post.kind \in {"ObjectDeployment", "ClusterObjectDeployment"} /\ E.post.cr.tmplHash # E.pre.cr.tmplHash
                                      THEN \* << before this write, now, incarnation of the deployment >>
                                           [ hist.deployedFor EXCEPT ![k] = << IF @[3] = E.post.uid THEN @[2] ELSE "", pr.snap.cr.tmplHash, E.post.uid >> ]
                                    ELSE IF E.pre.exists /\ ~E.post.exists THEN [ hist.deployedFor EXCEPT ![k] = <<"", "", "">> ]
                                    ELSE hist.deployedFor ]
       /\ pass' = [ pass EXCEPT
             ![p].calls = @ + 1,
             ![p].apiErr = @ \/ (~ok /\ ~(IsDepActor(pr.actor) /\ E.ev = "Create" /\ E.res = "AlreadyExists")),
             ![p].created = @ \/ (IsDepActor(pr.actor) /\ E.ev = "Create" /\ ok /\ ~E.dry),
             ![p].dryok = IF E.dry /\ ok THEN @ \cup {k} ELSE @,
             ![p].dryseen = IF E.dry THEN @ \cup {k} ELSE @,
             ![p].writes = IF ~E.dry /\ Changed(E) /\ k # pr.target THEN Append(@, k) ELSE @,
             ![p].obs[k] = IF ~E.dry /\ ok /\ E.ev = "ApplyPatch" /\ pr.hasSnap /\ k \in ListedObjKeys(pr)
                              THEN ObsOf(pr, E.args.ret)
                           ELSE IF ~E.dry /\ ok /\ E.ev \in {"Create", "MergePatch"} /\ pr.hasSnap /\ IsSetActor(pr.actor) /\ Rollout(pr)
                                   /\ k \in ManagedKeys(pr) /\ IsPhaseKey(pr, k)
                              THEN RemoteObs(E.args.ret)       \* the controller continues with the response of its own write
                           ELSE @,
             \* a delete answered with NotFound confirms the absence like a read does
             ![p].gone404 = IF ~E.dry /\ E.ev = "Delete" /\ E.res = "NotFound" THEN @ \cup {k} ELSE @,
             \* snapshot follows the responses of writes to the reconciled object (rv, finalizers)
             ![p].snap = IF k = pr.target /\ ok /\ pr.hasSnap /\ E.ev = "MergePatch"
                            THEN [ @ EXCEPT !.fin = E.post.fin, !.rv = E.post.rv ] ELSE @,
             ![p].orev = IF k = pr.target /\ E.ev = "StatusUpdate" /\ @ = 0 THEN E.args.body.cr.revision ELSE @,
             ![p].status = IF k = pr.target /\ E.ev = "StatusUpdate" /\ ok THEN E.post ELSE @,
             ![p].statusWritten = @ \/ (k = pr.target /\ E.ev = "StatusUpdate" /\ ok),
             \* the deployer creates one slice per chunk, in order, and retries a chunk under another name after a
             \* name collision: consecutive attempts with the same content belong to the same chunk, the last one names it
             ![p].sliceSeq = IF IsPkgActor(pr.actor) /\ E.ev = "Create" /\ ~E.dry /\ E.args.body.kind \in {"ObjectSlice", "ClusterObjectSlice"}
                               THEN LET c == [ name |-> k, content |-> E.args.body.cr.tmplHash ]
                                    IN IF Len(@) > 0 /\ @[Len(@)].content = c.content THEN [ @ EXCEPT ![Len(@)] = c ] ELSE Append(@, c)
                               ELSE @,
             ![p].clash = IF IsDepActor(pr.actor) /\ E.ev = "Create" /\ E.res = "AlreadyExists" THEN k ELSE @,
             ![p].phw = IF IsSetActor(pr.actor) /\ ~E.dry /\ E.ev \in {"Create", "MergePatch", "Update", "Delete"}
                           /\ (IF E.ev = "Create" THEN E.args.body.kind ELSE E.pre.kind) \in {"ObjectSetPhase", "ClusterObjectSetPhase"}
                          THEN Append(@, <<k, E.ev>>) ELSE @,
             ![p].odw = IF IsDepActor(pr.actor) /\ ~E.dry /\ E.ev \in {"Create", "Update", "Delete"}
                           /\ (IF E.ev = "Create" THEN E.args.body.kind ELSE E.pre.kind) \in {"ObjectSet", "ClusterObjectSet", ""}
                          THEN Append(@, OdOp(pr, E, k)) ELSE @,
             ![p].finRemoved = @ \/ (k = pr.target /\ E.ev = "MergePatch" /\ ok /\ E.args.patch.setsFinalizers
                                     /\ "package-operator.run/cached" \notin Range(E.post.fin)) ]
    /\ UNCHANGED scen
    /\ Advance

Next == TrReset \/ TrRow \/ TrPull \/ TrEnv \/ TrCrash \/ TrPassBegin \/ TrPassEnd \/ TrNote \/ TrRead \/ TrOther \/ TrWrite

Spec == Init /\ [][Next]_vars

Accepted == TLCGet("stats").diameter - 1 = Len(Trace)

\* error traces print only the cursor and the offending event number
Alias == [ l |-> l, event |-> lw.e.i, ev |-> lw.e.ev, key |-> lw.e.key, actor |-> lw.e.actor ]

(***************************************************************************)
(* Property invariants.  W = the write event just consumed, PR = its pass  *)
(* record (after the step; reads/verdicts of the key are those made BEFORE *)
(* the write because writes never update them).                            *)
(***************************************************************************)

W  == lw.e
PR == pass[W.actor]

CtlWrite   == lw.valid /\ IsOwnerActor(W.actor) /\ IsWrite(W.ev) /\ PR.hasSnap
RealWrite  == CtlWrite /\ ~W.dry /\ W.res = "ok"
\* a non-dry write request on a key listed in the owner (whatever its result)
ManagedReq == CtlWrite /\ ~W.dry /\ W.key \in (ManagedKeys(PR) \cup ListedObjKeys(PR))
ObjReq     == CtlWrite /\ ~W.dry /\ W.key \in ListedObjKeys(PR) /\ ~IsDelegatedKey(PR, W.key)

---------------------------------------------------------------------------
(* C01 collision protection *)

\* a rollout write on an existing object the owner does not control happens only if adoption is permitted —
\* judged on the state the SAME pass read, with the statement's own wording (AdoptionPermitted).
Inv_C01_WriteOnlyIfPermitted ==
    (ObjReq /\ Rollout(PR) /\ Changed(W) /\ PR.reads[W.key].valid /\ PR.reads[W.key].o.exists
       /\ ~IsCtrl(PR, PR.reads[W.key].o))
    => AdoptionPermitted(PR.strategy, PR.oid, PR.ouid, PR.orev, PR.reads[W.key].o, PR.prev, CPOf(PR, W.key), PR.forced)

\* the code's ladder and the statement agree on every state a pass reads
Inv_C01_LadderMatchesStatement ==
    \A p \in PassIds : \A k \in Keys :
        (pass[p].verdict[k] \notin {"", "Create", "AlreadyOwner"} /\ pass[p].reads[k].valid)
        => ( (pass[p].verdict[k] = "Adopt")
             <=> AdoptionPermitted(pass[p].strategy, pass[p].oid, pass[p].ouid, pass[p].orev, pass[p].reads[k].o,
                                   pass[p].prev, CPOf(pass[p], k), pass[p].forced) )

PassEnded == lw.valid /\ W.ev = "PassEnd" /\ IsOwnerActor(W.actor)
PE == pass[W.actor]

\* a refusal leaves the object untouched and is reported as Available=False/CollisionDetected
Inv_C01_RefusalReported ==
    (PassEnded /\ PE.hasSnap /\ ~PE.apiErr /\ \E k \in Keys : IsRefusal(PE.verdict[k]))
    => /\ \A k \in Keys : IsRefusal(PE.verdict[k]) => k \notin Range(PE.writes)
       /\ PE.statusWritten /\ CondIs(PE.status.cr, "Available", "False", "CollisionDetected")

\* a permitted adoption is carried out: the pass patched the object, afterwards the owner is its only
\* controller and the recorded revision is the owner's
Inv_C01_PermittedIsDone ==
    (RealWrite /\ ObjReq /\ Rollout(PR) /\ W.ev = "ApplyPatch" /\ PR.verdict[W.key] = "Adopt")
    => /\ IsCtrl(PR, W.post)
       /\ NumControllers(OwnersOf(PR.strategy, W.post)) = 1
       /\ W.post.rev = PR.orev

Inv_C01_AdoptNotSkipped ==
    (PassEnded /\ PE.hasSnap /\ ~PE.apiErr /\ W.res = "ok" /\ ~(\E k \in Keys : IsRefusal(PE.verdict[k])))
    => \A k \in Keys : PE.verdict[k] = "Adopt" => PE.obs[k].ctrl

---------------------------------------------------------------------------
(* C02 handover only moves forward *)

PKOWrite == lw.valid /\ W.actor \notin {"env", "sim"} /\ IsWrite(W.ev) /\ ~W.dry

Act_C02_RevisionMonotone ==
    (PKOWrite /\ W.pre.exists /\ W.post.exists /\ W.pre.uid = W.post.uid) => W.post.rev >= W.pre.rev

Inv_C02_NoTakeFromNewer ==
    (ObjReq /\ W.res = "ok" /\ IsCtrl(PR, W.post) /\ ~IsCtrl(PR, W.pre) /\ W.pre.exists)
    => (PR.reads[W.key].valid /\ PR.reads[W.key].o.rev <= PR.orev)

Inv_C02_SingleController ==
    (ObjReq /\ W.res = "ok" /\ W.post.exists /\ W.ev \in {"ApplyPatch", "Update", "Create"})
    => NumControllers(OwnersOf(PR.strategy, W.post)) <= 1
       /\ (IsCtrl(PR, W.post) /\ ~IsCtrl(PR, W.pre) => NumControllers(OwnersOf(PR.strategy, W.post)) = 1)

Act_C02_RevisionFixed ==
    (PKOWrite /\ W.pre.exists /\ W.post.exists /\ W.pre.uid = W.post.uid
       /\ W.pre.kind \in {"ObjectSet", "ClusterObjectSet"} /\ W.pre.cr.revision # 0)
    => W.post.cr.revision = W.pre.cr.revision

---------------------------------------------------------------------------
(* C03 phases in order, gated on probes — for the ObjectSet controller's own writes *)

\* every object of phase j - also those in its slices: a slice that could not be read hides objects nobody judged -
\* was seen present and passing
AllOK(pr, j) == /\ \A k \in PhaseWriteKeys(pr, j) : ObsOK(pr, k)
                /\ Range(pr.snap.cr.phases[j].slices) \cap pr.sliceMissing = {}

Inv_C03_Gate ==
    (CtlWrite /\ ~W.dry /\ IsSetActor(W.actor) /\ Rollout(PR) /\ W.key \in ManagedKeys(PR)
       /\ W.ev \in {"ApplyPatch", "Create", "Update", "MergePatch", "JSONPatch"})
    => \A i \in 1..(PhaseOf(PR, W.key) - 1) : AllOK(PR, i)

StatusEv == lw.valid /\ IsOwnerActor(W.actor) /\ W.ev = "StatusUpdate" /\ W.key = PR.target /\ PR.hasSnap

\* A ProbeFailure status is written only if some phase failed, no phase after the first failing one was
\* written, and (checked textually by the harness, see args.firstFail) it names that phase.
Inv_C03_FirstFailureNamed ==
    (StatusEv /\ IsSetActor(W.actor) /\ W.res = "ok" /\ CondIs(W.args.body.cr, "Available", "False", "ProbeFailure"))
    => \E j \in 1..NPhases(PR) :
          /\ ~AllOK(PR, j)
          /\ \A i \in 1..(j - 1) : AllOK(PR, i)
          /\ \A k \in Range(PR.writes) : k \in ManagedKeys(PR) => PhaseOf(PR, k) <= j
          \* the message names the first failing phase, and no other phase (word match, independent of the wording)
          /\ Range(W.args.failedPhase) = { PR.snap.cr.phases[j].name }

---------------------------------------------------------------------------
(* C04 teardown in reverse order, finalizer held *)

\* object k is "gone for this owner" as far as this pass has seen with uncached reads
GoneFor(pr, k) ==
    \/ pr.unc[k].valid /\ (~pr.unc[k].o.exists \/ ~IsCtrl(pr, pr.unc[k].o))
    \/ k \in pr.dryseen /\ k \notin pr.dryok            \* skipped by teardown preflight
    \/ k \in pr.gone404

PhaseGone(pr, j) ==
    IF IsDelegated(pr, j) /\ IsSetActor(pr.actor)
      THEN LET pk == pr.snap.cr.phases[j].phaseKey IN
           \/ pr.unc[pk].valid /\ (~pr.unc[pk].o.exists \/ ~IsControllerL(pr.oid, pr.ouid, pr.unc[pk].o.owners))
           \/ pk \in pr.gone404
      ELSE \A k \in Range(PhaseObjKeys(pr, j)) : GoneFor(pr, k)

Inv_C04_ReverseOrder ==
    (CtlWrite /\ ~W.dry /\ Teardown(PR) /\ W.ev = "Delete" /\ W.key \in ManagedKeys(PR)
       /\ "orphan" \notin Range(PR.snap.fin))
    => \A j \in (PhaseOf(PR, W.key) + 1)..NPhases(PR) : PhaseGone(PR, j)

HadFinalizer(pr) == "package-operator.run/cached" \in Range(pr.snap.fin)

\* removing the finalizer / reporting Archived=True only in a pass that saw every phase done
Inv_C04_FinalizerHeld ==
    (CtlWrite /\ ~W.dry /\ W.key = PR.target /\ Teardown(PR) /\ "orphan" \notin Range(PR.snap.fin) /\ HadFinalizer(PR)
       /\ \/ (W.ev = "MergePatch" /\ W.args.patch.setsFinalizers /\ "package-operator.run/cached" \notin Range(W.args.patch.finalizers))
          \/ (W.ev = "StatusUpdate" /\ CondTrue(W.args.body.cr, "Archived")))
    => \A j \in 1..NPhases(PR) : PhaseGone(PR, j)

\* while teardown is unfinished an archived set reports Archived=False
Inv_C04_ArchivedFalseUntilDone ==
    (StatusEv /\ IsSetActor(W.actor) /\ Teardown(PR) /\ SnapArchived(PR) /\ W.res = "ok"
       /\ HadFinalizer(PR) /\ "orphan" \notin Range(PR.snap.fin)
       /\ ~(\A j \in 1..NPhases(PR) : PhaseGone(PR, j)))
    => ~CondTrue(W.args.body.cr, "Archived")

\* The statement read as a fact about the cluster: at the instant the finalizer is removed or Archived=True
\* is written, no object listed in the phases (inline, or in the ObjectSlices the phases reference) is
\* controlled by the ObjectSet.
SliceObjsInStore(k) == IF store[k].exists THEN store[k].cr.objects ELSE <<>>
ListedInStore(pr) ==
    UNION { Range(pr.snap.cr.phases[j].keys)
            \cup UNION { Range(SliceObjsInStore(pr.snap.cr.phases[j].slices[i])) : i \in DOMAIN pr.snap.cr.phases[j].slices }
          : j \in 1..NPhases(pr) }

Inv_C04_NothingControlledWhenReleased ==
    (CtlWrite /\ ~W.dry /\ W.res = "ok" /\ W.key = PR.target /\ Teardown(PR) /\ "orphan" \notin Range(PR.snap.fin)
       /\ \/ (W.ev = "MergePatch" /\ W.args.patch.setsFinalizers /\ "package-operator.run/cached" \notin Range(W.args.patch.finalizers))
          \/ (W.ev = "StatusUpdate" /\ CondTrue(W.args.body.cr, "Archived")))
    => \A k \in ListedInStore(PR) : k \in Keys => ~IsCtrl(PR, store[k])

---------------------------------------------------------------------------
(* C05 deletes only what is controlled, pinned to the inspected version *)

DeleteEv == CtlWrite /\ ~W.dry /\ W.ev = "Delete" /\ W.key \in ListedObjKeys(PR) /\ ~IsDelegatedKey(PR, W.key)

Inv_C05_DeleteOnlyController ==
    DeleteEv => /\ PR.unc[W.key].valid /\ PR.unc[W.key].o.exists
                /\ IsCtrl(PR, PR.unc[W.key].o)
                /\ W.args.hasUID /\ W.args.uid = PR.unc[W.key].o.uid
                /\ W.args.hasRV  /\ W.args.rv  = PR.unc[W.key].o.rv

\* store semantics: a preconditioned delete of a re-created or modified object fails and changes nothing;
\* a successful delete hit exactly the inspected incarnation and version
Inv_C05_StoreEnforces ==
    (lw.valid /\ IsWrite(W.ev) /\ W.ev = "Delete" /\ ~W.dry /\ W.actor \notin {"env", "sim"} /\ W.pre.exists)
    => /\ ((W.args.hasUID /\ W.args.uid # W.pre.uid) \/ (W.args.hasRV /\ W.args.rv # W.pre.rv))
            \* (an injected fault - request lost before it reached the server, or response lost - shows as Fault; its effect counts)
            => ((W.res = "Conflict" \/ W.res = "Fault") /\ W.post = W.pre)
       /\ W.res = "ok" => ((W.args.hasUID => W.args.uid = W.pre.uid) /\ (W.args.hasRV => W.args.rv = W.pre.rv))

\* whatever the interleaving: an object PKO deletes is controlled by the deleting owner at that instant
Inv_C05_DeletedWasControlled ==
    (DeleteEv /\ W.res = "ok" /\ Changed(W)) => IsCtrl(PR, W.pre)

\* objects the owner does not control are never deleted; the only write allowed is the co-owner clean-up
Inv_C05_CoOwned ==
    (ObjReq /\ Teardown(PR) /\ W.ev # "Delete")
    => /\ W.ev = "MergePatch"
       /\ PR.unc[W.key].valid /\ ~IsCtrl(PR, PR.unc[W.key].o) /\ IsOwn(PR, PR.unc[W.key].o)
       /\ ~W.args.patch.other
       /\ W.args.patch.setsOwners
       /\ (PR.strategy = "native" => W.args.patch.owners = RemoveOwnerL(PR.oid, PR.ouid, PR.unc[W.key].o.owners))
       /\ W.res = "ok" =>
            /\ W.post.spec = W.pre.spec /\ W.post.rev = W.pre.rev /\ W.post.fin = W.pre.fin
            /\ Range(W.post.owners) \subseteq Range(W.pre.owners)
            /\ \A x \in Range(W.pre.owners) : x \notin Range(W.post.owners) => RefersTo(x, PR.oid, PR.ouid)

Inv_C05_ForeignUntouched ==
    (ObjReq /\ Teardown(PR) /\ PR.unc[W.key].valid /\ PR.unc[W.key].o.exists /\ ~IsOwn(PR, PR.unc[W.key].o))
    => FALSE

Inv_C05_Orphan ==
    (ManagedReq /\ Teardown(PR) /\ "orphan" \in Range(PR.snap.fin)) => FALSE

---------------------------------------------------------------------------
(* C06 status never claims more than observed *)

AllPhasesOK(pr) == \A j \in 1..NPhases(pr) : AllOK(pr, j)

\* Condition mappings (ObjectSetObject.conditionMappings; the harness maps the Widgets' Available condition): the status
\* a rollout pass writes carries, for every mapped object the pass reconciled, the object's condition under the
\* destination type with the status the pass last saw (read or response of its own patch) - and no other non-standard
\* condition: one left from an earlier pass whose source is gone or was not looked at is removed, not kept.
StdCondTypes == {"Available", "Succeeded", "InTransition", "Paused", "Archived", "Progressing", "Unpacked", "Invalid"}
MapOf(pr, k) ==
    LET hits == { <<j, i>> \in UNION { {j} \X DOMAIN pr.snap.cr.phases[j].keys : j \in 1..NPhases(pr) } : pr.snap.cr.phases[j].keys[i] = k }
    IN IF hits = {} THEN "" ELSE LET h == CHOOSE x \in hits : TRUE IN pr.snap.cr.phases[h[1]].maps[h[2]]
MappedStatus(probe) == IF probe = "NotReady" THEN "False" ELSE "True"     \* Ready / Stale: Available=True
Inv_C06_MappedConditions ==
    (StatusEv /\ W.res = "ok" /\ Rollout(PR) /\ ~SnapPaused(PR) /\ ~PR.apiErr /\ ~(\E j \in 1..NPhases(PR) : IsDelegated(PR, j)))
    => LET body == W.args.body.cr
           got  == { <<body.conds[i].type, body.conds[i].status>> : i \in { x \in DOMAIN body.conds : body.conds[x].type \notin StdCondTypes } }
           src  == { k \in ListedObjKeys(PR) : /\ MapOf(PR, k) # "" /\ PR.obs[k].valid /\ PR.obs[k].present
                                               /\ PR.obs[k].probe # "None" /\ ~IsRefusal(PR.verdict[k]) }
       IN got = { <<MapOf(PR, k), MappedStatus(PR.obs[k].probe)>> : k \in src }

\* keys the pass saw under the owner's control (for delegated phases: as reported by the phase read in this pass)
SeenControlled(pr) ==
    { k \in Keys : pr.obs[k].valid /\ pr.obs[k].present /\ pr.obs[k].ctrl /\ k \in ListedObjKeys(pr) /\ ~IsDelegatedKey(pr, k) }
    \* (the phase loop's read of the phase object, i.e. the FIRST read in the pass: a later read for the Paused condition
    \*  may already find it changed or gone)
    \cup UNION { IF IsSetActor(pr.actor) /\ IsDelegated(pr, j) /\ pr.snap.cr.phases[j].phaseKey \in Keys
                      /\ pr.phfirst[pr.snap.cr.phases[j].phaseKey].valid
                   THEN Range(pr.phfirst[pr.snap.cr.phases[j].phaseKey].o.cr.controllerOf) ELSE {}
                 : j \in 1..NPhases(pr) }

BodyCOf == Range(W.args.body.cr.controllerOf)

Inv_C06_AvailableJustified ==
    (StatusEv /\ Rollout(PR) /\ CondTrue(W.args.body.cr, "Available"))
    => /\ AllPhasesOK(PR)
       /\ CondOf(W.args.body.cr, "Available").cur
       /\ W.args.body.gen = PR.snap.gen

Inv_C06_ControllerOf ==
    (StatusEv /\ Rollout(PR) /\ (CondTrue(W.args.body.cr, "Available") \/ W.args.body.cr.controllerOf # PR.snap.cr.controllerOf))
    => /\ BodyCOf \subseteq SeenControlled(PR)
       /\ CondTrue(W.args.body.cr, "Available") => SeenControlled(PR) \subseteq BodyCOf

\* ... and not less either: a rollout pass that ends the normal way (every call answered, no refused adoption, no preflight
\* violation, not paused) reports every object it saw under its control - also while probes fail (the archive decision of the
\* deployment and the parent ObjectSet of a delegated phase read this list)
NormalEnd(pr) == ~pr.apiErr /\ ~(\E k \in Keys : IsRefusal(pr.verdict[k])) /\ pr.dryseen \subseteq pr.dryok
\* (delegated phases: what the phase object reported, for the phases the loop reached - a phase object read later in the
\* pass only for the Paused condition is not "seen" by the phase loop)
SeenControlledReached(pr) ==
    { k \in Keys : pr.obs[k].valid /\ pr.obs[k].present /\ pr.obs[k].ctrl /\ k \in ListedObjKeys(pr) /\ ~IsDelegatedKey(pr, k) }
    \cup UNION { IF IsSetActor(pr.actor) /\ IsDelegated(pr, j) /\ pr.snap.cr.phases[j].phaseKey \in Keys
                      /\ pr.phfirst[pr.snap.cr.phases[j].phaseKey].valid
                      /\ (\A i \in 1..(j - 1) : \A x \in PhaseWriteKeys(pr, i) : ObsOK(pr, x))
                   THEN Range(pr.phfirst[pr.snap.cr.phases[j].phaseKey].o.cr.controllerOf) ELSE {}
                 : j \in 1..NPhases(pr) }
Inv_C06_ControllerOfComplete ==
    (StatusEv /\ W.res = "ok" /\ Rollout(PR) /\ ~SnapPaused(PR) /\ NormalEnd(PR))
    => SeenControlledReached(PR) \subseteq BodyCOf

\* Succeeded is first written only together with Available=True and without InTransition, and never withdrawn
Inv_C06_SucceededWhenAvailable ==
    (StatusEv /\ W.res = "ok" /\ CondTrue(W.post.cr, "Succeeded") /\ ~CondTrue(W.pre.cr, "Succeeded"))
    => CondTrue(W.post.cr, "Available") /\ ~CondTrue(W.post.cr, "InTransition")

Act_C06_SucceededSticky ==
    (PKOWrite /\ W.pre.exists /\ W.post.exists /\ W.pre.uid = W.post.uid /\ CondTrue(W.pre.cr, "Succeeded"))
    => CondTrue(W.post.cr, "Succeeded")

\* InTransition is cleared only if every object in spec was seen under the owner's control
Inv_C06_InTransition ==
    (StatusEv /\ IsSetActor(W.actor) /\ Rollout(PR) /\ W.res = "ok" /\ ~HasCond(W.args.body.cr, "InTransition")
       /\ PR.calls > 2 /\ BodyCOf # {} )
    => ListedObjKeys(PR) \subseteq (SeenControlled(PR) \cup BodyCOf)

Inv_C06_Archived ==
    \A k \in Keys : (store[k].exists /\ store[k].kind \in {"ObjectSet", "ClusterObjectSet"} /\ CondTrue(store[k].cr, "Archived"))
        => ~HasCond(store[k].cr, "Available") /\ store[k].cr.controllerOf = <<>>

\* once Archived=True is stored, a pass on that set ends after its first read
Inv_C06_ArchivedNotReconciled ==
    \A p \in PassIds : (pass[p].hasSnap /\ IsSetActor(pass[p].actor) /\ CondTrue(pass[p].snap.cr, "Archived")) => pass[p].calls <= 1

---------------------------------------------------------------------------
(* C09 paused means hands-off *)

\* (a set that has completed archival - condition Archived=True - is final: the controller does not touch it again,
\* whatever a user writes into lifecycleState afterwards; Inv_C06_ArchivedNotReconciled)
PausedPass(pr) == pr.hasSnap /\ SnapPaused(pr) /\ ~SnapDeleting(pr) /\ ~SnapArchived(pr) /\ ~CondTrue(pr.snap.cr, "Archived")

Inv_C09_NoWritesWhilePaused ==
    (CtlWrite /\ ~W.dry /\ PausedPass(PR) /\ W.key \in ListedObjKeys(PR)) => FALSE

\* a paused pass still reports Available (from probing) and Paused
Inv_C09_StillReports ==
    (PassEnded /\ PausedPass(PE) /\ ~PE.apiErr /\ W.res = "ok" /\ ~W.args.requeue)
    => /\ PE.statusWritten
       /\ HasCond(PE.status.cr, "Available")
       /\ (IsSetActor(PE.actor) /\ PE.snap.cr.remotePhases = <<>> /\ ~(\E j \in 1..NPhases(PE) : IsDelegated(PE, j)))
              => CondTrue(PE.status.cr, "Paused")
       /\ IsPhaseActor(PE.actor) => CondTrue(PE.status.cr, "Paused")

\* ... whatever the state of the listed objects (missing ones included): with every API call answered, a paused pass
\* does not fail - a failing pass reports nothing (a slice that cannot be read is the one input error a pass has)
\* (the pass that creates an ObjectSetPhase object always ends with the stale NotFound of the lookup before the create -
\* remotephase_reconciler.go returns `err` of the Get after a successful Create - and is retried: observation O9)
Inv_C09_PausedPassCompletes ==
    (PassEnded /\ PausedPass(PE) /\ ~PE.apiErr /\ PE.sliceMissing = {} /\ ~(\E i \in DOMAIN PE.phw : PE.phw[i][2] = "Create")
       \* a revision number cannot be computed while a declared previous revision is gone: the other input error
       /\ ~(PE.snap.cr.revision = 0 /\ [ id |-> "", uid |-> "", remote |-> <<>> ] \in PE.prev))
    => W.res = "ok"

\* pause reaches delegated phases: after an error-free pass of an ObjectSet, every phase object the pass has read and
\* that the ObjectSet controls carries spec.paused = the ObjectSet's own pause state (so the phase controller is hands-off
\* exactly while the ObjectSet is paused).  Reached(j): the phase loop got to phase j (all earlier phases passed).
PhasePauseOK(pr, j) ==
    LET k == pr.snap.cr.phases[j].phaseKey IN
    (k \in Keys /\ pr.reads[k].valid /\ pr.reads[k].o.exists /\ store[k].exists /\ store[k].uid = pr.reads[k].o.uid /\ IsCtrl(pr, store[k]))
    => store[k].cr.paused = SnapPaused(pr)
PassEndedOK == PassEnded /\ IsSetActor(W.actor) /\ W.res = "ok" /\ PE.hasSnap /\ Rollout(PE) /\ ~PE.apiErr
ReachedPhase(pr, j) == \A i \in 1..(j - 1) : (\A k \in PhaseWriteKeys(pr, i) : ObsOK(pr, k))
Inv_C09_PhasePauseFollows ==
    PassEndedOK => \A j \in 1..NPhases(PE) : (IsDelegated(PE, j) /\ ReachedPhase(PE, j)) => PhasePauseOK(PE, j)
\* ... and the phases behind a failing phase (the loop stops at the first failing phase; known finding)
Inv_C09_PhasePauseBehindFailure ==
    PassEndedOK => \A j \in 1..NPhases(PE) : (IsDelegated(PE, j) /\ ~ReachedPhase(PE, j)) => PhasePauseOK(PE, j)

\* pausing an ObjectDeployment: no revision is created, archived or pruned while paused
Inv_C09_DeploymentPausedNoRevisionChange ==
    (lw.valid /\ IsDepActor(W.actor) /\ IsWrite(W.ev) /\ ~W.dry /\ PR.hasSnap /\ PR.snap.cr.paused
       /\ W.ev \in {"Create", "Delete", "Update"} /\ W.key # PR.target)
    => /\ W.ev = "Update"
       /\ W.args.body.cr.lifecycle = "Paused" /\ W.args.body.cr.pausedByParent

\* the deployment changes a revision's lifecycle only to pause it (marking it paused-by-parent when the
\* deployment itself is paused), to release a revision that carries the paused-by-parent mark, or to archive it
Inv_C09_ReleaseExactlyMarked ==
    (lw.valid /\ IsDepActor(W.actor) /\ W.ev = "Update" /\ ~W.dry /\ PR.hasSnap /\ W.pre.exists
       /\ W.pre.kind \in {"ObjectSet", "ClusterObjectSet"} /\ W.args.body.cr.lifecycle # W.pre.cr.lifecycle)
    => \/ W.args.body.cr.lifecycle = "Active" /\ W.pre.cr.pausedByParent /\ ~PR.snap.cr.paused /\ ~W.args.body.cr.pausedByParent
       \* pausing: with the mark when the deployment is paused; otherwise (pause before archival) without adding one.
       \* (A mark that is already there - e.g. stale because a user re-activated the revision by hand - is not the deployment's doing.)
       \/ W.args.body.cr.lifecycle = "Paused" /\ (IF PR.snap.cr.paused THEN W.args.body.cr.pausedByParent
                                                    ELSE W.args.body.cr.pausedByParent = W.pre.cr.pausedByParent)
       \/ W.args.body.cr.lifecycle = "Archived" /\ ~PR.snap.cr.paused

\* after an error-free pass of a paused deployment every non-archived revision it listed is paused by parent;
\* after an error-free pass of an unpaused deployment no listed revision carries the mark any more
Inv_C09_Propagation ==
    (lw.valid /\ W.ev = "PassEnd" /\ IsDepActor(W.actor) /\ W.res = "ok" /\ pass[W.actor].hasSnap /\ pass[W.actor].hasList
       /\ ~pass[W.actor].apiErr /\ \A i \in DOMAIN pass[W.actor].listed : pass[W.actor].listed[i].cr.revision # 0)
    => \A i \in DOMAIN pass[W.actor].listed :
         LET k == pass[W.actor].listed[i].key IN
         (k \in Keys /\ store[k].exists /\ store[k].uid = pass[W.actor].listed[i].uid /\ pass[W.actor].listed[i].cr.lifecycle # "Archived")
         => IF pass[W.actor].snap.cr.paused
              THEN store[k].cr.lifecycle = "Paused" /\ store[k].cr.pausedByParent
              \* "paused by parent" = Paused and marked, as the code reads it; a stale mark on an active revision is not a pause
              \* (observation O5: a mark left stale on a revision a user re-activated by hand is carried along when the
              \*  revision is later paused for archival; only revisions the pass found paused-by-parent must be released)
              ELSE (pass[W.actor].listed[i].cr.pausedByParent /\ pass[W.actor].listed[i].cr.lifecycle = "Paused")
                     => ~(store[k].cr.pausedByParent /\ store[k].cr.lifecycle = "Paused")

---------------------------------------------------------------------------
(* C11 no write before preflight; never outside the owner's namespace *)

Inv_C11_PhaseAllOrNothing ==
    (ObjReq /\ Rollout(PR) /\ Changed(W))
    => \A k \in Range(PhaseObjKeys(PR, PhaseOfObj(PR, W.key))) : k \in PR.dryok

\* writes of a namespaced owner stay in its namespace (after the server's scope rule: key ns "" = cluster scoped)
Inv_C11_Scope ==
    (lw.valid /\ W.actor \in {"os", "ph", "tm"} /\ IsWrite(W.ev) /\ ~W.dry /\ W.res = "ok" /\ Changed(W) /\ PR.hasSnap)
    => (IF W.post.exists THEN W.post.ns ELSE W.pre.ns) = PR.snap.ns

Inv_C11_Reported ==
    (PassEnded /\ PE.hasSnap /\ Rollout(PE) /\ ~PE.apiErr /\ PE.statusWritten
       /\ CondIs(PE.status.cr, "Available", "False", "PreflightError"))
    => /\ W.args.requeue
       /\ \A k \in Range(PE.writes) : k \notin ListedObjKeys(PE) \/ (\A k2 \in Range(PhaseObjKeys(PE, PhaseOfObj(PE, k))) : k2 \in PE.dryok)

(* table rows (driver preflight-table): the class of every listed object is known from the Row event, so
   "passes preflight" is judged by the statement's own rules, not by the code's dry-run calls *)
IsRow == scen.row >= 0 /\ "classes" \in DOMAIN scen

ClassOf(k) == IF k \in DOMAIN scen.classes THEN scen.classes[k] ELSE "valid"

Violating(k) ==
    LET c == ClassOf(k) IN
    \/ c \in {"unknownAPI", "presetOwner", "dryReject"}
    \/ c \in {"foreignNS", "clusterNoNS", "clusterOwnNS"} /\ scen.flavour \in {"os", "ph"}

\* the dry run of these objects is answered by a server-side error: not accepted, but no verdict about the object either
DryErr(k) == ClassOf(k) \in {"dry500", "dry429"}

Inv_C11_NoWriteIfViolating ==
    (IsRow /\ ObjReq /\ Rollout(PR) /\ Changed(W))
    => /\ \A k \in Range(PhaseObjKeys(PR, PhaseOfObj(PR, W.key))) : ~Violating(k) /\ ~DryErr(k)
       /\ ~scen.hasDup

FirstBad(pr) == { j \in 1..NPhases(pr) : (\E k \in Range(PhaseObjKeys(pr, j)) : Violating(k))
                                         /\ (\A k \in Range(PhaseObjKeys(pr, j)) : ~DryErr(k))
                                         /\ \A i \in 1..(j - 1) : \A k \in Range(PhaseObjKeys(pr, i)) : ~Violating(k) /\ ~DryErr(k) }

Inv_C11_ViolationReported ==
    (IsRow /\ PassEnded /\ PE.hasSnap /\ Rollout(PE) /\ ~PE.apiErr /\ (scen.hasDup \/ FirstBad(PE) # {}))
    => /\ PE.statusWritten
       /\ CondIs(PE.status.cr, "Available", "False", "PreflightError")
       /\ W.args.requeue

---------------------------------------------------------------------------
(* C07 one ObjectSet per template, unique increasing revisions (ObjectDeployment controller) *)

DepWrite == lw.valid /\ IsDepActor(W.actor) /\ IsWrite(W.ev) /\ ~W.dry /\ PR.hasSnap
IsSetKind(kd) == kd \in {"ObjectSet", "ClusterObjectSet"}

MaxRev(items) == IF items = <<>> THEN 0 ELSE
    LET r == { items[i].cr.revision : i \in DOMAIN items } IN CHOOSE m \in r : \A x \in r : x <= m
NewestOf(items) == items[CHOOSE i \in DOMAIN items : items[i].cr.revision = MaxRev(items)]

Inv_C07_CreateJustified ==
    (DepWrite /\ W.ev = "Create" /\ IsSetKind(W.args.body.kind))
    => /\ PR.hasList
       /\ ~PR.snap.cr.paused
       /\ PR.snap.cr.phases # <<>>
       /\ \A i \in DOMAIN PR.listed : PR.listed[i].cr.revision # 0
       /\ (PR.listed = <<>> \/ \E i \in DOMAIN PR.listed :
                                 /\ PR.listed[i].cr.revision = MaxRev(PR.listed)
                                 \* "not matched": different spec, archived, or (the code's own notion) a different
                                 \* template-hash annotation — the hash includes the collision counter, so after a
                                 \* counter bump a spec-equal newest set no longer matches (observation O1 in DESIGN.md)
                                 /\ (PR.listed[i].cr.tmplHash # PR.snap.cr.tmplHash \/ PR.listed[i].cr.lifecycle = "Archived"
                                        \/ PR.listed[i].cr.hash # W.args.body.cr.hash))
       /\ W.args.body.cr.tmplHash = PR.snap.cr.tmplHash                      \* spec equals the template
       /\ Range(W.args.body.cr.previous) = { PR.listed[i].key : i \in DOMAIN PR.listed }
       /\ IsControllerL(PR.snap.oid, PR.snap.uid, W.args.body.owners)

\* between two template changes at most one ObjectSet is created for the deployment
Inv_C07_AtMostOnePerTemplateEpoch == \A k \in Keys : hist.creates[k] <= 1

\* revisions of the ObjectSets of one deployment are unique
Inv_C07_RevisionsUnique ==
    \A k1, k2 \in Keys :
        (k1 # k2 /\ store[k1].exists /\ store[k2].exists /\ IsSetKind(store[k1].kind) /\ IsSetKind(store[k2].kind)
           /\ DeploymentOf(store[k1]) # "" /\ DeploymentOf(store[k1]) = DeploymentOf(store[k2])
           /\ store[k1].cr.revision # 0)
        => store[k1].cr.revision # store[k2].cr.revision

\* a revision number, when assigned, is strictly greater than those of all revisions named in `previous`
Inv_C07_RevisionIncreasing ==
    (lw.valid /\ IsSetActor(W.actor) /\ W.ev = "StatusUpdate" /\ W.res = "ok" /\ W.pre.cr.revision = 0 /\ W.post.cr.revision # 0)
    => \A pk \in Range(W.post.cr.previous) : (pk \in Keys /\ store[pk].exists) => store[pk].cr.revision < W.post.cr.revision

\* a name clash with an archived or different-spec ObjectSet is answered by bumping the collision counter
Inv_C07_NoReuse ==
    (lw.valid /\ W.ev = "PassEnd" /\ IsDepActor(W.actor) /\ pass[W.actor].hasSnap /\ pass[W.actor].clash # "" /\ W.res = "ok")
    => LET pr == pass[W.actor]
           c  == store[pr.clash] IN
       (c.exists /\ (c.cr.lifecycle = "Archived" \/ c.cr.tmplHash # pr.snap.cr.tmplHash))
          => (pr.statusWritten /\ pr.status.cr.collisions = pr.snap.cr.collisions + 1)

\* "whenever the template is not matched by the newest ObjectSet ... a new ObjectSet is created": an error-free pass that
\* saw every revision reported and no current revision (the newest set's hash annotation differs from the template
\* hash this pass computed) either created the ObjectSet, or hit a name clash and bumped the collision counter, or the
\* clash is with the just-created, not-yet-listed newest ObjectSet of the same spec (the slow-cache case).
Inv_C07_ProgressOnMismatch ==
    (lw.valid /\ W.ev = "PassEnd" /\ IsDepActor(W.actor) /\ W.res = "ok" /\ pass[W.actor].hasSnap /\ pass[W.actor].hasList
       /\ ~pass[W.actor].apiErr /\ pass[W.actor].statusWritten)
    => LET pr == pass[W.actor]
           noCurrent == pr.listed = <<>> \/ \A i \in DOMAIN pr.listed :
                            \* judged on the CONTENT (the projection's own hash of phases, probes, success delay), not on the
                            \* hash the controller computed: a template edit the controller's hash does not see is still an edit
                            pr.listed[i].cr.revision = MaxRev(pr.listed) => pr.listed[i].cr.tmplHash # pr.snap.cr.tmplHash IN
       (~pr.snap.cr.paused /\ pr.snap.cr.phases # <<>> /\ (\A i \in DOMAIN pr.listed : pr.listed[i].cr.revision # 0) /\ noCurrent
          /\ pr.status.cr.collisions = pr.snap.cr.collisions)
       => \/ pr.created
          \/ /\ pr.clash # "" /\ store[pr.clash].exists
             /\ store[pr.clash].cr.tmplHash = pr.snap.cr.tmplHash /\ store[pr.clash].cr.lifecycle # "Archived"
             /\ (store[pr.clash].cr.revision = 0 \/ store[pr.clash].cr.revision > MaxRev(pr.listed))

---------------------------------------------------------------------------
(* C08 rollouts never archive or delete what is still serving *)

ListedBy(pr, oid) == pr.listed[CHOOSE i \in DOMAIN pr.listed : pr.listed[i].oid = oid]
IsListed(pr, oid) == \E i \in DOMAIN pr.listed : pr.listed[i].oid = oid

\* object keys of ObjectSet o, slices resolved through the store
SetObjKeys(o) ==
    UNION { Range(o.cr.phases[j].keys)
            \cup UNION { IF o.cr.phases[j].slices[i] \in Keys THEN Range(SliceObjsInStore(o.cr.phases[j].slices[i])) ELSE {}
                         : i \in DOMAIN o.cr.phases[j].slices }
          : j \in DOMAIN o.cr.phases }

ArchiveEv == DepWrite /\ W.ev = "Update" /\ IsSetKind(W.pre.kind) /\ W.args.body.cr.lifecycle = "Archived"
             /\ W.pre.cr.lifecycle # "Archived" /\ IsListed(PR, W.pre.oid)

Inv_C08_ArchiveOnlyPaused ==
    ArchiveEv => CondTrue(ListedBy(PR, W.pre.oid).cr, "Paused")

Inv_C08_NewestNeverArchived ==
    ArchiveEv => ListedBy(PR, W.pre.oid).cr.revision < MaxRev(PR.listed)

Inv_C08_ArchiveCondition ==
    ArchiveEv =>
      LET x == ListedBy(PR, W.pre.oid)
          newer == { i \in DOMAIN PR.listed : PR.listed[i].cr.revision > x.cr.revision } IN
      \/ \E i \in newer : CondTrue(PR.listed[i].cr, "Available")
      \/ /\ ~CondTrue(x.cr, "Available")
         /\ newer # {}
         /\ LET nxt == PR.listed[CHOOSE i \in newer : \A j \in newer : PR.listed[i].cr.revision <= PR.listed[j].cr.revision] IN
            Range(x.cr.controllerOf) \cap SetObjKeys(nxt) = {}

Inv_C08_PruneOldestOnly ==
    (DepWrite /\ W.ev = "Delete" /\ IsSetKind(W.pre.kind) /\ IsListed(PR, W.pre.oid))
    => LET d == ListedBy(PR, W.pre.oid) IN
       \* never the newest revision (with duplicate revision numbers - C07's business - which one is current is undefined)
       /\ (d.cr.revision < MaxRev(PR.listed) \/ \E i \in DOMAIN PR.listed : PR.listed[i].cr.revision = d.cr.revision /\ PR.listed[i].oid # d.oid)
       \* at least `limit` previous revisions (the newest one is the current revision) are not older than d
       /\ Cardinality({ i \in DOMAIN PR.listed : PR.listed[i].cr.revision > d.cr.revision
                                                  \/ (PR.listed[i].cr.revision = d.cr.revision /\ PR.listed[i].oid # d.oid) }) - 1
            >= HistLimit(PR)

\* ... and pruning removes history only: a revision that is not archived and still controls an object the newest revision
\* contains is serving the handover, deleting it deletes that object (found with revisionHistoryLimit 0, fixed by 244db63)
Inv_C08_PruneNotServing ==
    (DepWrite /\ W.ev = "Delete" /\ ~W.dry /\ IsSetKind(W.pre.kind) /\ IsListed(PR, W.pre.oid))
    => LET d == ListedBy(PR, W.pre.oid)
           newest == { i \in DOMAIN PR.listed : PR.listed[i].cr.revision = MaxRev(PR.listed) } IN
       \/ d.cr.lifecycle = "Archived" \/ W.pre.cr.lifecycle = "Archived"
       \/ \A i \in newest : Range(d.cr.controllerOf) \cap SetObjKeys(PR.listed[i]) = {}

\* handover from the outgoing revision S to the incoming (newest, not archived) revision N of the same deployment,
\* S being N's immediate predecessor: an object N contains is never deleted by S's teardown.
\* (With intermediate revisions that dropped the object its deletion is merely late and not flagged.)
Inv_C08_SharedObjectNotDeleted ==
    (CtlWrite /\ ~W.dry /\ W.res = "ok" /\ Changed(W) /\ W.ev = "Delete" /\ IsSetActor(W.actor) /\ Teardown(PR)
       /\ W.key \in ListedInStore(PR) /\ DeploymentOf(PR.snap) # "")
    => \A nk \in Keys :
         (store[nk].exists /\ IsSetKind(store[nk].kind) /\ DeploymentOf(store[nk]) = DeploymentOf(PR.snap) /\ nk # PR.target
            /\ store[nk].cr.lifecycle # "Archived" /\ ~store[nk].deleting
            /\ ~(\E ok \in Keys : ok # nk /\ store[ok].exists /\ IsSetKind(store[ok].kind)      \* ties are C07's business
                                   /\ DeploymentOf(store[ok]) = DeploymentOf(PR.snap) /\ store[ok].cr.revision = store[nk].cr.revision)
            /\ \A ok \in Keys : (store[ok].exists /\ IsSetKind(store[ok].kind) /\ DeploymentOf(store[ok]) = DeploymentOf(PR.snap))
                                   => /\ store[ok].cr.revision <= store[nk].cr.revision
                                      /\ ~(PR.snap.cr.revision < store[ok].cr.revision /\ store[ok].cr.revision < store[nk].cr.revision)
            \* ... also not through an intermediate revision that is gone by now: S is the last entry of N's previous list
            /\ Len(store[nk].cr.previous) > 0 /\ store[nk].cr.previous[Len(store[nk].cr.previous)] = PR.target)
         => W.key \notin SetObjKeys(store[nk])

---------------------------------------------------------------------------
(* Conformance of the deployment controller with DeployPlan!Plan (definitions next to TrPassEnd) *)
Conf_DeployPlan == lw.conf
Conf_RemotePhase == lw.confR

---------------------------------------------------------------------------
(* C10, the trigger side of convergence: a refused adoption is a state nothing wakes the owner from (the colliding
   object is not the owner's, its changes are not mapped to the owner; the owner's own status write is filtered out) -
   every pass that ends in it, the first and every later one, asks to be run again *)
Inv_C10_RetryArmed ==
    (PassEnded /\ PE.hasSnap /\ Rollout(PE) /\ ~PE.apiErr /\ W.res = "ok" /\ \E k \in Keys : IsRefusal(PE.verdict[k]))
    => W.args.requeue

---------------------------------------------------------------------------
(* C10 convergence: the end state the spec tracked (from the events of the disturbed run) equals the end state of
   the undisturbed reference run of the same scenario; the run ended in a fixpoint (two write-free fair rounds) *)

OwnerSet(owners) == { [ id |-> owners[i].id, ctrl |-> owners[i].ctrl ] : i \in DOMAIN owners }
CondSet(conds)   == { [ type |-> conds[i].type, status |-> conds[i].status, reason |-> conds[i].reason ] : i \in DOMAIN conds }

\* what the statement lists: managed objects, their owners and revisions, which revisions are active or archived,
\* condition statuses (uids, resourceVersions, generations and messages are not part of the outcome)
Norm(o) ==
    IF ~o.exists THEN [ exists |-> FALSE ]
    ELSE [ exists |-> TRUE, kind |-> o.kind, owners |-> OwnerSet(o.owners), aowners |-> OwnerSet(o.aowners), rev |-> o.rev,
           cache |-> o.cache, fin |-> Range(o.fin), deleting |-> o.deleting, spec |-> o.spec, probe |-> o.probe,
           life |-> o.cr.lifecycle, revision |-> o.cr.revision, conds |-> CondSet(o.cr.conds),
           cof |-> Range(o.cr.controllerOf), pbp |-> o.cr.pausedByParent, paused |-> o.cr.paused, previous |-> o.cr.previous ]

QuiescedEv == lw.valid /\ W.ev = "Quiesced"

Inv_C10_Quiescent == QuiescedEv => W.res = "ok"

Inv_C10_SameOutcome ==
    (QuiescedEv /\ W.args.hasRef)
    => /\ \A i \in DOMAIN W.args.ref :
             LET k == W.args.ref[i].key IN
             Norm(IF k \in Keys THEN store[k] ELSE Absent) = Norm(W.args.ref[i].p)
       /\ \A k \in Keys : store[k].exists => \E i \in DOMAIN W.args.ref : W.args.ref[i].key = k

\* the harness's own end-state digest agrees with the store the spec reconstructed from the events
Inv_C10_DigestMatchesStore ==
    QuiescedEv => \A i \in DOMAIN W.args.state : W.args.state[i].key \in Keys /\ store[W.args.state[i].key] = W.args.state[i].p

---------------------------------------------------------------------------
(* C14 / C15 differentials: a sliced (C14) or delegated (C15) variant of a staged scenario reaches, after every
   stage, the same cluster outcome as the inline / in-process base run. Controller identities are mapped
   (ObjectSetPhase -> its ObjectSet); ObjectSlice / ObjectSetPhase objects themselves are the encoding and ignored. *)

PKOKinds == {"ObjectSet", "ClusterObjectSet", "ObjectSetPhase", "ClusterObjectSetPhase", "ObjectSlice", "ClusterObjectSlice",
             "ObjectDeployment", "ClusterObjectDeployment", "Package", "ClusterPackage", "ObjectTemplate", "ClusterObjectTemplate", "Namespace"}

MapId(id, m) == IF id \in DOMAIN m THEN m[id] ELSE id

NormObj(o, m) ==
    IF ~o.exists THEN [ exists |-> FALSE ]
    ELSE [ exists |-> TRUE, kind |-> o.kind, owners |-> { [ id |-> MapId(o.owners[i].id, m), ctrl |-> o.owners[i].ctrl ] : i \in DOMAIN o.owners },
           rev |-> o.rev, cache |-> o.cache, fin |-> Range(o.fin), deleting |-> o.deleting, spec |-> o.spec, probe |-> o.probe ]

NormSet(o) ==
    IF ~o.exists THEN [ exists |-> FALSE ]
    ELSE [ exists |-> TRUE, life |-> o.cr.lifecycle, revision |-> o.cr.revision, deleting |-> o.deleting,
           conds |-> { [ type |-> o.cr.conds[i].type, status |-> o.cr.conds[i].status ] :
                       i \in { j \in DOMAIN o.cr.conds : o.cr.conds[j].type \in {"Available", "Succeeded", "Archived", "Paused"} } },
           cof |-> Range(o.cr.controllerOf) ]

DiffEv(which) == QuiescedEv /\ "diff" \in DOMAIN W.args /\ W.args.diff = which

DiffSame ==
    /\ W.res = "ok"
    /\ \A i \in DOMAIN W.args.diffRef :
         LET k == W.args.diffRef[i].key
             r == W.args.diffRef[i].p
             o == IF k \in Keys THEN store[k] ELSE Absent IN
         /\ r.kind \notin PKOKinds => NormObj(o, W.args.ownerMap) = NormObj(r, W.args.ownerMap)
         /\ r.kind \in {"ObjectSet", "ClusterObjectSet"} => NormSet(o) = NormSet(r)
    /\ \A k \in Keys : (store[k].exists /\ (store[k].kind \notin PKOKinds \/ store[k].kind \in {"ObjectSet", "ClusterObjectSet"}))
                          => \E i \in DOMAIN W.args.diffRef : W.args.diffRef[i].key = k

Inv_C14_SameAsInline == DiffEv("c14") => DiffSame
Inv_C15_SameAsLocal  == DiffEv("c15") => DiffSame

\* C15: the ObjectSet controller realises a classed phase through exactly the ObjectSetPhase named after it, creates it
\* only when absent, with the phase's objects, the set's revision, previous revisions and paused state, and deletes it
\* only during teardown
Inv_C15_PhaseObjectFaithful ==
    (CtlWrite /\ ~W.dry /\ IsSetActor(W.actor) /\ W.ev = "Create" /\ W.args.body.kind \in {"ObjectSetPhase", "ClusterObjectSetPhase"})
    => \E j \in 1..NPhases(PR) :
          /\ IsDelegated(PR, j) /\ W.key = PR.snap.cr.phases[j].phaseKey
          /\ W.args.body.cr.phases[1].keys = PhaseObjKeys(PR, j)
          /\ W.args.body.cr.phases[1].cps = PR.snap.cr.phases[j].cps
          /\ W.args.body.cr.revision = PR.orev
          /\ W.args.body.cr.previous = PR.snap.cr.previous
          /\ W.args.body.cr.paused = SnapPaused(PR)
          /\ W.args.body.cr.class = PR.snap.cr.phases[j].class
          /\ IsControllerL(PR.oid, PR.ouid, W.args.body.owners)
          /\ PR.reads[W.key].valid /\ ~PR.reads[W.key].o.exists

\* C15: status.remotePhases names the phase objects that exist: the entry of a phase object the pass has read carries
\* that object's uid (a phase object re-created under the same name gets its new uid recorded) - successor revisions
\* resolve "controlled by the previous revision" through these entries
Inv_C15_RemotePhaseRefsCurrent ==
    (StatusEv /\ IsSetActor(W.actor) /\ Rollout(PR) /\ W.res = "ok")
    => \A j \in 1..NPhases(PR) :
         IsDelegated(PR, j) =>
           LET k == PR.snap.cr.phases[j].phaseKey IN
           \* (only for phases the phase loop reached: behind a failing phase nothing is refreshed - see the C09 known finding)
           (k \in Keys /\ PR.phfirst[k].valid /\ PR.phfirst[k].o.exists
              /\ \A i \in 1..(j - 1) : \A x \in PhaseWriteKeys(PR, i) : PR.obs[x].valid /\ PR.obs[x].present /\ PR.obs[x].passes)
           => \A i \in DOMAIN W.args.body.cr.remotePhases :
                W.args.body.cr.remotePhases[i].id = PR.phfirst[k].o.oid => W.args.body.cr.remotePhases[i].uid = PR.phfirst[k].o.uid

Inv_C15_PhaseObjectLifetime ==
    (CtlWrite /\ ~W.dry /\ IsSetActor(W.actor) /\ W.ev = "Delete" /\ W.pre.kind \in {"ObjectSetPhase", "ClusterObjectSetPhase"})
    => Teardown(PR) /\ PR.unc[W.key].valid /\ IsControllerL(PR.oid, PR.ouid, PR.unc[W.key].o.owners)

\* the ObjectSet propagates pause to the phase object (and nothing else of its spec)
Inv_C15_PausePropagation ==
    (CtlWrite /\ ~W.dry /\ IsSetActor(W.actor) /\ W.ev = "MergePatch" /\ W.pre.kind \in {"ObjectSetPhase", "ClusterObjectSetPhase"})
    => /\ W.args.patch.setsPaused /\ W.args.patch.paused = SnapPaused(PR) /\ ~W.args.patch.other
       /\ ~W.args.patch.setsOwners /\ ~W.args.patch.setsFinalizers

---------------------------------------------------------------------------
(* C16 only valid, admissible packages roll out; unchanged packages are left alone (Package controller) *)

DeployKinds == {"ObjectDeployment", "ClusterObjectDeployment", "ObjectSlice", "ClusterObjectSlice"}
KindOfW == IF W.pre.exists THEN W.pre.kind ELSE W.post.kind
PkgWrite == lw.valid /\ IsPkgActor(W.actor) /\ IsWrite(W.ev) /\ ~W.dry /\ PR.hasSnap /\ W.key # PR.target /\ Changed(W)
             /\ KindOfW \in DeployKinds

\* the only deployment write that does not need an admissible package: propagating spec.paused
PauseOnly == W.ev = "Update" /\ W.pre.exists /\ W.post.exists /\ W.pre.cr.tmplHash = W.post.cr.tmplHash /\ W.pre.cr.paused # W.post.cr.paused

Inv_C16_NoDeployUnlessAdmissible == PkgWrite => (PR.pulled = "valid" \/ PauseOnly)

PkgEnd == lw.valid /\ W.ev = "PassEnd" /\ IsPkgActor(W.actor) /\ pass[W.actor].hasSnap
PK == pass[W.actor]

\* pull failures are shown as Unpacked=False, load failures and unmet constraints as Invalid=True — and persisted
Inv_C16_Conditions ==
    (PkgEnd /\ ~PK.apiErr /\ ~PK.snap.cr.paused /\ ~PK.snap.deleting)
    => /\ PK.pulled = "pullError" => (W.res = "ok" /\ PK.statusWritten /\ CondIs(PK.status.cr, "Unpacked", "False", "ImagePullBackOff"))
       /\ PK.pulled \in {"loadError", "constraintUnmet"} => (W.res = "ok" /\ PK.statusWritten /\ CondTrue(PK.status.cr, "Invalid"))
       /\ (PK.pulled = "valid" /\ W.res = "ok" /\ PK.statusWritten) => ~CondTrue(PK.status.cr, "Invalid")

\* a valid, admissible package rolls out: without API faults the pass that pulled it does not fail
Inv_C16_ValidPackageDeploys ==
    (PkgEnd /\ ~PK.apiErr /\ PK.pulled = "valid" /\ ~PK.snap.cr.paused /\ ~PK.snap.deleting) => W.res = "ok"

\* a changed image, config or component is always acted upon: a pass over an unpaused Package that does not pull
\* found the spec exactly as it was when it was last unpacked
Inv_C16_ChangedSpecIsPulled ==
    (PkgEnd /\ W.res = "ok" /\ ~PK.apiErr /\ ~PK.snap.cr.paused /\ ~PK.snap.deleting /\ PK.pulled = "")
    => (PK.snap.cr.hash # "" /\ hist.unpacked[PK.target] = PK.snap.cr.tmplHash)

\* C13 at the level of the controller: rendering is a function of the package's files, its spec (image, config,
\* component) and the environment of its namespace - with all of them unchanged (the harness never changes files or
\* environment within a scenario) a re-render gives the same template: the Package controller changes the template of
\* an existing deployment only when the Package spec differs from the one the template was last written from
\* (C13 speaks of the render, i.e. of the template before chunking. The NAMES of slices also depend on which slices exist
\* in the cluster - a name taken by a slice of another deployment incarnation is avoided even for identical content,
\* observation O11 - so a template whose slice names moved is judged by Inv_C14_SliceContent / Inv_C16_TemplateIsRender.)
SliceNamesOf(o) == UNION { { o.cr.phases[j].slices[i] : i \in DOMAIN o.cr.phases[j].slices } : j \in DOMAIN o.cr.phases }
Inv_C13_UnchangedPackageKeepsTemplate ==
    (lw.valid /\ IsPkgActor(W.actor) /\ W.ev = "Update" /\ ~W.dry /\ PR.hasSnap /\ W.pre.exists /\ W.post.exists
       /\ W.post.kind \in {"ObjectDeployment", "ClusterObjectDeployment"} /\ W.pre.cr.tmplHash # W.post.cr.tmplHash
       /\ SliceNamesOf(W.pre) = SliceNamesOf(W.post))
    => hist.deployedFor[W.key][1] # PR.snap.cr.tmplHash

\* the unpacked-hash is recorded only by a pass that got the content of the image (valid or not): after a failed pull -
\* transient or not - nothing is recorded, so the next pass pulls again (PKOPackage!Inv_C16_RecordJustified)
Inv_C16_RecordJustified ==
    (lw.valid /\ IsPkgActor(W.actor) /\ W.ev = "StatusUpdate" /\ W.key = PR.target /\ PR.hasSnap /\ W.post.cr.hash # W.pre.cr.hash)
    => PR.pulled \notin {"", "pullError"}

\* a Package whose spec is unchanged since it was unpacked is not pulled again
Inv_C16_NoRepull ==
    (lw.valid /\ W.ev = "Pull" /\ IsPkgActor(W.actor) /\ PR.hasSnap)
    => ~(PR.snap.cr.hash # "" /\ hist.unpacked[PR.target] = PR.snap.cr.tmplHash)

\* after an error-free pass over an unpaused Package with a valid spec (unchanged since the pass read it) the
\* ObjectDeployment template — slices inlined in order — equals a fresh render of that spec
Inv_C16_TemplateIsRender ==
    (lw.valid /\ W.ev = "C16Template" /\ W.args.specValid /\ ~W.args.passErr /\ PR.hasSnap /\ ~PR.snap.cr.paused
       /\ store[PR.target].exists /\ store[PR.target].cr.tmplHash = PR.snap.cr.tmplHash /\ ~store[PR.target].cr.paused
       /\ ~PR.snap.deleting /\ PR.statusWritten
       /\ (PR.pulled = "valid" \/ (PR.pulled = "" /\ PR.snap.cr.hash # "" /\ hist.unpacked[PR.target] = PR.snap.cr.tmplHash)))
    => W.args.matches

\* C09: pausing a Package pauses its ObjectDeployment and stops unpacking/deploying
Inv_C09_PackagePaused ==
    (lw.valid /\ IsPkgActor(W.actor) /\ PR.hasSnap /\ PR.snap.cr.paused /\ ~PR.snap.deleting)
    => /\ W.ev # "Pull"
       /\ (IsWrite(W.ev) /\ ~W.dry /\ Changed(W) /\ W.key # PR.target /\ KindOfW \in DeployKinds)
            => (PauseOnly /\ W.post.cr.paused)

\* C14: slice garbage collection never deletes a slice referenced by the deployment template or any existing ObjectSet
SlicesOf(o) == UNION { Range(o.cr.phases[j].slices) : j \in DOMAIN o.cr.phases }
GCDelete == lw.valid /\ IsPkgActor(W.actor) /\ W.ev = "Delete" /\ ~W.dry /\ W.res = "ok" /\ W.pre.exists
              /\ W.pre.kind \in {"ObjectSlice", "ClusterObjectSlice"}
\* the decision: not referenced by the deployment template, nor by any ObjectSet that existed when the pass listed them
Inv_C14_GC ==
    GCDelete
    => \A k \in Keys :
         (store[k].exists /\ (store[k].kind \in {"ObjectDeployment", "ClusterObjectDeployment"}
                               \/ (store[k].kind \in {"ObjectSet", "ClusterObjectSet"} /\ store[k].uid \in PR.gcSeen)))
         => W.key \notin SlicesOf(store[k])
\* the statement at the instant of the delete: not referenced by ANY existing ObjectSet (also one created after the list)
Inv_C14_GCInstant ==
    GCDelete
    => \A k \in Keys : (store[k].exists /\ store[k].kind \in {"ObjectSet", "ClusterObjectSet", "ObjectDeployment", "ClusterObjectDeployment"})
                         => W.key \notin SlicesOf(store[k])

\* C14: a slice name is only used for the content it was computed from (a colliding name is never reused)
\* lossless encoding: when the deployer has chunked in this pass, the slices named by the template it writes are,
\* in order, the chunks — each stored under its name with exactly the content of that chunk (so a name that
\* collides with different content is never reused)
RECURSIVE FlatFrom(_, _)
FlatFrom(ph, j) == IF j > Len(ph) THEN <<>> ELSE ph[j].slices \o FlatFrom(ph, j + 1)
FlatSlices(o) == FlatFrom(o.cr.phases, 1)
Inv_C14_SliceContent ==
    (lw.valid /\ IsPkgActor(W.actor) /\ W.ev = "Update" /\ ~W.dry /\ W.res = "ok" /\ W.post.exists
       /\ W.post.kind \in {"ObjectDeployment", "ClusterObjectDeployment"} /\ Len(PR.sliceSeq) > 0)
    => /\ FlatSlices(W.post) = [ i \in DOMAIN PR.sliceSeq |-> PR.sliceSeq[i].name ]
       /\ \A i \in DOMAIN PR.sliceSeq :
             LET sk == PR.sliceSeq[i].name
             IN sk \in Keys => (store[sk].exists /\ store[sk].cr.tmplHash = PR.sliceSeq[i].content)

---------------------------------------------------------------------------
(* C18 ObjectTemplates track their sources and stay within bounds (driver template-walk: template t1 renders the
   ConfigMap `out` from required source src-a (.data.a) and optional source src-b (.data.b, "unset" when absent);
   checks are taken at quiescence = no pending trigger, timers fired) *)

IsTmActor(a) == a \in {"tm", "ctm"}
C18Ev == lw.valid /\ W.ev = "C18Check"
\* class secretSrc: the required source is a Secret (a kind the template's own target watch does not cover), and a
\* neighbour template t0 already watches that kind
SrcA == IF scen.row >= 0 /\ "class" \in DOMAIN scen /\ scen.class = "secretSrc" THEN "Secret/ns1/src-a"
        ELSE IF scen.row >= 0 /\ "class" \in DOMAIN scen /\ scen.class = "widgetSrc" THEN "Widget/ns1/src-a"   \* value read from .status.a
        ELSE "ConfigMap/ns1/src-a"
SrcB == "ConfigMap/ns1/src-b"
OutK == "ConfigMap/ns1/out"
Has(k) == k \in Keys /\ store[k].exists
Field(k, f) == IF Has(k) /\ f \in DOMAIN store[k].data THEN store[k].data[f] ELSE "<none>"
Renderable(c) == c \in {"ok", "ok2", "optionalFirst", "secretSrc", "widgetSrc", "envHosted"}
\* class envHosted: a HyperShift management cluster; the render also depends on the ENVIRONMENT of the template's
\* namespace - t1's namespace hosts no cluster ("none"), the neighbour th lives in the namespace of hosted cluster "one"
OutH == "ConfigMap/hc-one/out-h"

\* at quiescence the produced object equals the template rendered with the CURRENT values of its sources
Inv_C18_OutputIsRender ==
    (C18Ev /\ W.args.label \in {"initial", "mid", "final"} /\ Renderable(W.args.class) /\ Has(W.key) /\ ~store[W.key].deleting /\ Has(SrcA))
    => /\ Has(OutK)
       /\ Field(OutK, "a") = Field(SrcA, "a")
       /\ Field(OutK, "b") = (IF Has(SrcB) THEN Field(SrcB, "b") ELSE "unset")
       /\ (store[W.key].cr.class = "ok2") <=> ("c" \in DOMAIN store[OutK].data)
       /\ (W.args.class = "envHosted") => (Field(OutK, "h") = "none" /\ (Has(OutH) => Field(OutH, "h") = "one"))
       /\ IsControllerL(store[W.key].oid, store[W.key].uid, store[OutK].owners)
       /\ ~CondTrue(store[W.key].cr, "package-operator.run/Invalid")

\* a missing required source, an unparsable template, a source or target outside the template's namespace:
\* the target is not written in that pass and the pass reports Invalid=True
\* (the neighbour template t0 of some scenarios is not the object under test)
TmEnd == lw.valid /\ W.ev = "PassEnd" /\ IsTmActor(W.actor) /\ pass[W.actor].hasSnap /\ ~pass[W.actor].snap.deleting
         /\ pass[W.actor].target = "ObjectTemplate/ns1/t1"
TM == pass[W.actor]
TmBlocked == scen.row >= 0 /\ "class" \in DOMAIN scen
             /\ (scen.class \in {"bad", "targetOtherNS", "sourceOtherNS", "clusterSrc"} \/ SrcA \in TM.nf)

Inv_C18_InvalidNoWrite ==
    (TmEnd /\ ~TM.apiErr /\ TmBlocked)
    => /\ \A k \in Range(TM.writes) : store[k].kind # "ConfigMap" \/ k \in {SrcA, SrcB}     \* only source label patches
       \* a source of a cluster-scoped kind is outside a namespaced template's reach: not even labelled
       /\ (scen.class = "clusterSrc") => Range(TM.writes) = {}
       /\ W.res = "ok" /\ TM.statusWritten /\ CondTrue(TM.status.cr, "package-operator.run/Invalid")

\* deleting the ObjectTemplate releases its watches
Inv_C18_Freed ==
    (C18Ev /\ W.args.label = "deleted") => (~Has(W.key) /\ W.args.templateRefs = 0)

Inv_C19_NoPanic == ~(lw.valid /\ W.ev \in {"Panic", "Timeout"})

=============================================================================
