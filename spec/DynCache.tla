------------------------------ MODULE DynCache ------------------------------
(***************************************************************************)
(* Reference model of internal/dynamiccache.Cache (property C12): which    *)
(* informers run, who owns a watch, which informers have the controllers'  *)
(* event handlers attached.  Every operation holds the cache's mutex for   *)
(* its whole duration, so operations are atomic and concurrent callers see *)
(* some sequential order of them.                                          *)
(*                                                                         *)
(* Informer start-up can fail in two ways (internal/dynamiccache/          *)
(* informer_map.go): "create" - the informer is never created; "sync" -    *)
(* it is created and runs inside the informer map but its first sync times *)
(* out, Get returns a Timeout error.                                       *)
(*                                                                         *)
(* Rollback = "full"   : intended behaviour - a Watch whose informer fails *)
(*                       to start leaves neither a reference nor a running *)
(*                       informer behind.                                  *)
(* Rollback = "refonly": the reference is dropped but an informer created  *)
(*                       by a timed-out start keeps running, un-owned      *)
(*                       (the code after fix 3d787c7, before its follow-up)*)
(* Rollback = "none"   : the code as found (reference stays, the next      *)
(*                       Watch skips informer creation and handler         *)
(*                       registration, a later read starts an informer     *)
(*                       implicitly without handlers).                     *)
(***************************************************************************)
EXTENDS Naturals, FiniteSets

CONSTANTS Owners, Kinds, Rollback, MaxFail

VARIABLES refs,      \* [Kinds -> SUBSET Owners]
          running,   \* SUBSET Kinds : informers present in the informer map
          attached,  \* SUBSET Kinds : informers that carry all registered event handlers
          fails,     \* start-up failures injected so far
          last       \* [op, kind, owner, result] of the last operation (for action-style invariants)

vars == <<refs, running, attached, fails, last>>

Init == /\ refs = [ k \in Kinds |-> {} ] /\ running = {} /\ attached = {} /\ fails = 0
        /\ last = [ op |-> "Init", kind |-> "", owner |-> "", result |-> "ok", wasOwned |-> FALSE ]

\* ---- pure transition functions (shared with the trace specification) ----

St(r, ru, at) == [ refs |-> r, running |-> ru, attached |-> at ]

Fails(f) == f \in {"create", "sync"}

\* f: how the informer start-up of this call fails, if it has to start one ("none" | "create" | "sync").
\* An informer already present in the informer map is handed out as it is (no start, no failure).
WatchF(s, o, k, f) ==
    IF s.refs[k] # {} THEN [ st |-> St([ s.refs EXCEPT ![k] = @ \cup {o} ], s.running, s.attached), result |-> "ok" ]
    ELSE IF Fails(f) /\ k \notin s.running
      THEN [ st |-> St(IF Rollback = "none" THEN [ s.refs EXCEPT ![k] = {o} ] ELSE s.refs,
                       IF f = "sync" /\ Rollback # "full" THEN s.running \cup {k} ELSE s.running,
                       s.attached),
             result |-> "Error" ]
    ELSE [ st |-> St([ s.refs EXCEPT ![k] = {o} ], s.running \cup {k}, s.attached \cup {k}), result |-> "ok" ]

FreeF(s, o) ==
    LET nr == [ k \in Kinds |-> s.refs[k] \ {o} ]
        stop == { k \in Kinds : o \in s.refs[k] /\ nr[k] = {} } IN
    [ st |-> St(nr, s.running \ stop, s.attached \ stop), result |-> "ok" ]

ReadF(s, k, f) ==
    IF s.refs[k] = {} THEN [ st |-> s, result |-> "NotStarted" ]
    ELSE IF k \in s.running THEN [ st |-> s, result |-> "ok" ]
    ELSE IF Fails(f) THEN [ st |-> St(s.refs, IF f = "sync" THEN s.running \cup {k} ELSE s.running, s.attached), result |-> "Error" ]
    ELSE [ st |-> St(s.refs, s.running \cup {k}, s.attached), result |-> "ok" ]     \* implicit start, no handlers

Cur == St(refs, running, attached)

Apply(r, op, k, o) ==
    /\ refs' = r.st.refs /\ running' = r.st.running /\ attached' = r.st.attached
    /\ last' = [ op |-> op, kind |-> k, owner |-> o, result |-> r.result, wasOwned |-> IF k \in Kinds THEN refs[k] # {} ELSE FALSE ]

FailKinds == {"none", "create", "sync"}
Watch(o, k, f)    == /\ (Fails(f) => fails < MaxFail) /\ fails' = IF Fails(f) THEN fails + 1 ELSE fails
                     /\ Apply(WatchF(Cur, o, k, f), "Watch", k, o)
Free(o)           == /\ UNCHANGED fails /\ Apply(FreeF(Cur, o), "Free", "", o)
Read(k, f)        == /\ (Fails(f) => fails < MaxFail) /\ fails' = IF Fails(f) THEN fails + 1 ELSE fails
                     /\ Apply(ReadF(Cur, k, f), "Get", k, "")

Next == \/ \E o \in Owners, k \in Kinds, f \in FailKinds : Watch(o, k, f)
        \/ \E o \in Owners : Free(o)
        \/ \E k \in Kinds, f \in FailKinds : Read(k, f)

Spec == Init /\ [][Next]_vars

\* ---- the property ----

\* an informer runs for a kind exactly while at least one owner watches it
Inv_C12_InformerIffOwned == running = { k \in Kinds : refs[k] # {} }

\* every running informer delivers events to all registered handlers — also after an earlier failed start
Inv_C12_HandlersAttached == running \subseteq attached

\* reading a kind nobody watches fails and starts nothing
Inv_C12_ReadUnwatchedFails ==
    (last.op = "Get" /\ ~last.wasOwned) => last.result = "NotStarted"

=============================================================================
