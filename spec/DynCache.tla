------------------------------ MODULE DynCache ------------------------------
(***************************************************************************)
(* Reference model of internal/dynamiccache.Cache (property C12): which    *)
(* informers run, who owns a watch, which informers have the controllers'  *)
(* event handlers attached.  Every operation holds the cache's mutex for   *)
(* its whole duration, so operations are atomic and concurrent callers see *)
(* some sequential order of them.                                          *)
(*                                                                         *)
(* Rollback = TRUE  : intended behaviour — a Watch whose informer fails to *)
(*                    start leaves no reference behind.                    *)
(* Rollback = FALSE : the code as found before the fix (reference stays,   *)
(*                    the next Watch skips informer creation and handler   *)
(*                    registration, a later read starts an informer        *)
(*                    implicitly without handlers).                        *)
(***************************************************************************)
EXTENDS Naturals, FiniteSets

CONSTANTS Owners, Kinds, Rollback, MaxFail

VARIABLES refs,      \* [Kinds -> SUBSET Owners]
          running,   \* SUBSET Kinds : informers present in the informer map
          attached,  \* SUBSET Kinds : informers that carry all registered event handlers
          fails,     \* start-up failures injected so far
          last       \* [op, kind, owner, result] of the last operation (for action-style invariants)

vars == <<refs, running, attached, fails, last>>

Init == /\ refs = [ k \in Kinds |-> {} ] /\ running = {} /\ attached = {} /\ fails = 0
        /\ last = [ op |-> "Init", kind |-> "", owner |-> "", result |-> "ok", wasOwned |-> FALSE ]

\* ---- pure transition functions (shared with the trace specification) ----

St(r, ru, at) == [ refs |-> r, running |-> ru, attached |-> at ]

WatchF(s, o, k, fail) ==
    IF s.refs[k] # {} THEN [ st |-> St([ s.refs EXCEPT ![k] = @ \cup {o} ], s.running, s.attached), result |-> "ok" ]
    ELSE IF fail THEN [ st |-> St(IF Rollback THEN s.refs ELSE [ s.refs EXCEPT ![k] = {o} ], s.running, s.attached), result |-> "Error" ]
    ELSE [ st |-> St([ s.refs EXCEPT ![k] = {o} ], s.running \cup {k}, s.attached \cup {k}), result |-> "ok" ]

FreeF(s, o) ==
    LET nr == [ k \in Kinds |-> s.refs[k] \ {o} ]
        stop == { k \in Kinds : o \in s.refs[k] /\ nr[k] = {} } IN
    [ st |-> St(nr, s.running \ stop, s.attached \ stop), result |-> "ok" ]

ReadF(s, k, fail) ==
    IF s.refs[k] = {} THEN [ st |-> s, result |-> "NotStarted" ]
    ELSE IF k \in s.running THEN [ st |-> s, result |-> "ok" ]
    ELSE IF fail THEN [ st |-> s, result |-> "Error" ]
    ELSE [ st |-> St(s.refs, s.running \cup {k}, s.attached), result |-> "ok" ]     \* implicit start, no handlers

Cur == St(refs, running, attached)

Apply(r, op, k, o) ==
    /\ refs' = r.st.refs /\ running' = r.st.running /\ attached' = r.st.attached
    /\ last' = [ op |-> op, kind |-> k, owner |-> o, result |-> r.result, wasOwned |-> IF k \in Kinds THEN refs[k] # {} ELSE FALSE ]

Watch(o, k, fail) == /\ (fail => fails < MaxFail) /\ fails' = IF fail THEN fails + 1 ELSE fails
                     /\ Apply(WatchF(Cur, o, k, fail), "Watch", k, o)
Free(o)           == /\ UNCHANGED fails /\ Apply(FreeF(Cur, o), "Free", "", o)
Read(k, fail)     == /\ (fail => fails < MaxFail) /\ fails' = IF fail THEN fails + 1 ELSE fails
                     /\ Apply(ReadF(Cur, k, fail), "Get", k, "")

Next == \/ \E o \in Owners, k \in Kinds, f \in BOOLEAN : Watch(o, k, f)
        \/ \E o \in Owners : Free(o)
        \/ \E k \in Kinds, f \in BOOLEAN : Read(k, f)

Spec == Init /\ [][Next]_vars

\* ---- the property ----

\* an informer runs for a kind exactly while at least one owner watches it
Inv_C12_InformerIffOwned == running = { k \in Kinds : refs[k] # {} }

\* every running informer delivers events to all registered handlers — also after an earlier failed start
Inv_C12_HandlersAttached == running \subseteq attached

\* reading a kind nobody watches fails and starts nothing
Inv_C12_ReadUnwatchedFails ==
    (last.op = "Get" /\ ~last.wasOwned) => last.result = "NotStarted"

=============================================================================
