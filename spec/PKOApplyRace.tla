---------------------------- MODULE PKOApplyRace ----------------------------
(***************************************************************************)
(* Two revisions of one object handled by DIFFERENT workers (an            *)
(* ObjectSetPhase controller for the delegated phase of the old revision,  *)
(* the ObjectSet controller for the new one - or an ObjectSet and a        *)
(* ClusterObjectSet controller), each doing, per object,                   *)
(*     read  ->  adoption ladder on what was read  ->  server-side apply   *)
(*              (force, owner list computed from what was READ, own        *)
(*              revision annotation)                                       *)
(* as internal/controllers/phase_reconciler.go does.  PKO.tla has a single *)
(* worker, so this interleaving does not exist there; here it is the whole *)
(* model.  The ladder and ownership operators are PKOCore's.               *)
(*                                                                         *)
(* Property C02: the recorded revision never decreases and control never   *)
(* moves back to the older revision.  It FAILS (known finding C02, H8):    *)
(* the old revision reads the object while it still controls it, the new   *)
(* revision adopts it, the old revision's apply - still "AlreadyOwner" by  *)
(* its stale read - force-writes revision 1 and its own controller         *)
(* reference.  Pinned = TRUE (the apply carries the resourceVersion that   *)
(* was read) is a design in which the property holds.                      *)
(***************************************************************************)
EXTENDS PKOCore, Integers, TLC

CONSTANTS Pinned, MaxPass

VARIABLES obj,    \* [exists, owners, aowners, rev, pkoLabel, ver]
          w,      \* [1..2 -> [st, read]]   worker of revision 1 / 2
          passes, lastw
vars == <<obj, w, passes, lastw>>

Rev == {1, 2}
Oid(r) == IF r = 1 THEN "rev1" ELSE "rev2"
PrevOf(r) == IF r = 2 THEN { [ id |-> "rev1", uid |-> 1, remote |-> <<>> ] } ELSE {}

Init == /\ obj = [ exists |-> TRUE, owners |-> << [ id |-> "rev1", uid |-> 1, ctrl |-> TRUE ] >>, aowners |-> <<>>, rev |-> 1,
                   pkoLabel |-> FALSE, ver |-> 1 ]
        /\ w = [ r \in Rev |-> [ st |-> "idle", read |-> obj ] ]
        /\ passes = 0 /\ lastw = [ by |-> 0, pre |-> obj, post |-> obj ]

Read(r) ==
    /\ w[r].st = "idle" /\ passes < MaxPass
    /\ w' = [ w EXCEPT ![r] = [ st |-> "decide", read |-> obj ] ]
    /\ passes' = passes + 1 /\ UNCHANGED <<obj, lastw>>

\* in memory: the ladder on what was read; then the apply
Apply(r) ==
    /\ w[r].st = "decide"
    /\ LET o == w[r].read
           v == Adopt("native", Oid(r), r, r, o, PrevOf(r), "Prevent", FALSE) IN
       IF v \in {"Adopt", "AlreadyOwner"} /\ ~(Pinned /\ obj.ver # o.ver)
         THEN LET n == [ obj EXCEPT !.owners = AfterAdoptNative(Oid(r), r, o.owners), !.rev = r, !.ver = @ + 1 ] IN
              /\ obj' = n /\ lastw' = [ by |-> r, pre |-> obj, post |-> n ]
         ELSE UNCHANGED <<obj, lastw>>          \* SkipNewer / refusal / (Pinned) conflict: no write
    /\ w' = [ w EXCEPT ![r].st = "idle" ]
    /\ UNCHANGED passes

Next == \E r \in Rev : Read(r) \/ Apply(r)
Spec == Init /\ [][Next]_vars

\* C02: the recorded revision never decreases ...
Act_C02_RevisionMonotone == lastw.post.rev >= lastw.pre.rev
\* ... and an object controlled by the newer revision is never taken back by the older one
Inv_C02_NoTakeFromNewer ==
    ~(lastw.by = 1 /\ IsControllerL("rev2", 2, lastw.pre.owners) /\ IsControllerL("rev1", 1, lastw.post.owners))
=============================================================================
