------------------------------ MODULE Probing ------------------------------
(***************************************************************************)
(* Availability probing as a pure function (property C17):                 *)
(* an object passes iff every probe entry whose kind and label selector    *)
(* match it passes; an entry passes iff the status does not declare an     *)
(* observedGeneration different from metadata.generation and every         *)
(* sub-probe passes.  All failing probes are reported.                     *)
(*                                                                         *)
(* Abstract rows (harness/sim/c17.go concretises them):                    *)
(*  entry = [kind, label \in {"none","match","mismatch"}, subs : Seq(...)] *)
(*  obj   = [og, shape, condA, condB, fields, x, gen, lab]                 *)
(*  gen: metadata.generation readable ("int") or not ("absent", "string"): *)
(*  an unreadable generation counts as 0, so every declared               *)
(*  observedGeneration is outdated                                         *)
(***************************************************************************)
EXTENDS Naturals, Sequences, FiniteSets

\* label selector: "match" needs the label the labelled object carries, "mismatch" never selects, "notexists" (only a
\* negative requirement on a key no object has) selects every object - also one without any labels
Selected(e, o) == /\ e.kind \notin {"mismatch", "groupMismatch"}     \* kind selectors compare group AND kind
                  /\ CASE e.label = "mismatch" -> FALSE
                        [] e.label = "match" -> o.lab = "app"
                        [] OTHER -> TRUE

\* a condition sub-probe needs a well-formed conditions list; a non-map entry met before the wanted one is "malformed"
SubPass(s, o) ==
    CASE s = "condA"  -> o.shape = "ok" /\ (o.condA = "TrueNoOG" \/ (o.condA = "TrueOGeq" /\ o.gen = "int"))
      [] s = "condB"  -> o.shape = "ok" /\ o.condB = "True"
      [] s = "fields" -> o.fields = "equal"                 \* missing field or different value fails
      [] s \in {"fieldsEmpty", "fieldsDots", "fieldsEmptySeg"} -> FALSE   \* "", ".", "..", ".spec..a": the path names no field
      [] s = "cel"    -> o.x > 0
      [] s = "celEmpty" -> o.x > 0                          \* a CEL probe without a message fails like any other
      [] OTHER        -> TRUE

SumSeq(s) == LET F[i \in 0..Len(s)] == IF i = 0 THEN 0 ELSE F[i - 1] + s[i] IN F[Len(s)]

\* number of failure messages one entry contributes
EntryMsgs(e, o) ==
    IF ~Selected(e, o) THEN 0
    ELSE IF o.og = "stale" \/ (o.og = "equal" /\ o.gen # "int") THEN 1   \* .status outdated: sub-probes are not consulted
    ELSE Cardinality({ i \in DOMAIN e.subs : ~SubPass(e.subs[i], o) })

ParseFails(es) == \E i \in DOMAIN es : \E j \in DOMAIN es[i].subs : es[i].subs[j] = "celNonBool"   \* CEL rules must be boolean

Msgs(es, o) == SumSeq([ i \in DOMAIN es |-> EntryMsgs(es[i], o) ])

Pass(es, o) == Msgs(es, o) = 0
=============================================================================
