---- MODULE MC_PKOPackage ----
EXTENDS PKOPackage
MCSpecs == {"A", "B", "X", "P"}
MCClass == [ s \in MCSpecs |-> CASE s = "X" -> "invalid" [] s = "P" -> "pullError" [] OTHER -> "valid" ]
====
