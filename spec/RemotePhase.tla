---------------------------- MODULE RemotePhase ----------------------------
(***************************************************************************)
(* What the ObjectSet controller decides for ONE delegated phase, as a pure *)
(* function of what it read (internal/controllers/objectsets/               *)
(* remotephase_reconciler.go, Reconcile):                                  *)
(*                                                                         *)
(*   ph : the ObjectSetPhase object as read through the manager client     *)
(*        [ex, paused, gen, avail ("none" | "True" | "False"), availGen]   *)
(*   setPaused : the ObjectSet's spec.lifecycleState = Paused              *)
(*                                                                         *)
(* RemoteOp  - the one write request the pass issues for the phase object  *)
(* AfterOp   - the phase object the pass continues with (the response of   *)
(*             its own write: a created object has no status, a patched   *)
(*             one a new generation)                                       *)
(* Verdict   - "open" (next phase may be reconciled), "failing" (phase     *)
(*             reports Available=False) or "nostatus" (no Available        *)
(*             condition for the current generation: wait)                 *)
(*                                                                         *)
(* Shared by the design model PKOPhase.tla and, on every recorded pass of  *)
(* the real controller, by TraceObs.tla (Conf_RemotePhase).                *)
(***************************************************************************)
EXTENDS Integers

RemoteOp(setPaused, ph) ==
    IF ~ph.ex THEN "create"
    ELSE IF ph.paused # setPaused THEN "patch"
    ELSE "none"

AfterOp(setPaused, ph) ==
    IF ~ph.ex THEN [ ex |-> TRUE, paused |-> setPaused, gen |-> 1, avail |-> "none", availGen |-> 0 ]
    ELSE IF ph.paused # setPaused THEN [ ph EXCEPT !.paused = setPaused, !.gen = @ + 1 ]
    ELSE ph

Verdict(ph) ==
    IF ph.avail = "none" \/ ph.availGen # ph.gen THEN "nostatus"
    ELSE IF ph.avail = "True" THEN "open"
    ELSE "failing"

\* Deviation of the code from the intended design, modelled as found: Reconcile keeps the NotFound of its lookup in
\* `err` across the successful Create and returns it ("getting existing ObjectSetPhase: ... not found"), so the pass
\* that creates a phase object always ends with an error and the ObjectSet is reconciled again (observation O9).
\* The next pass finds the object and goes on; nothing is written twice.
CreateAbortsPass == TRUE
PassAborts(setPaused, ph) == CreateAbortsPass /\ RemoteOp(setPaused, ph) = "create"

\* the verdict the pass acts on
PassVerdict(setPaused, ph) == Verdict(AfterOp(setPaused, ph))
=============================================================================
