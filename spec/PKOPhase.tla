------------------------------ MODULE PKOPhase ------------------------------
(***************************************************************************)
(* Design model of delegated phases: the protocol between the ObjectSet    *)
(* controller and the ObjectSetPhase controller.                           *)
(*                                                                         *)
(* One ObjectSet with phases 1..N; the phases in Deleg carry a class and   *)
(* are handed to an ObjectSetPhase object, the others are reconciled in    *)
(* process.  The ObjectSet controller's handling of a delegated phase is   *)
(* modelled per API call (Get, Create | MergePatch{resourceVersion,paused},*)
(* uncached Get + Delete on teardown) with the decision taken by           *)
(* RemotePhase.tla; in-process phases and the ObjectSetPhase controller    *)
(* (whose object handling is the PhaseReconciler modelled in PKO.tla) are  *)
(* abstracted to atomic steps on the state of a phase's objects:           *)
(* absent -> notready -> ready.                                            *)
(*   internal/controllers/objectsets/remotephase_reconciler.go             *)
(*   internal/controllers/objectsets/objectsetphases_reconciler.go         *)
(*   internal/controllers/objectsets/objectset_controller.go               *)
(*   internal/controllers/objectsetphases/objectsetphase_controller.go     *)
(*                                                                         *)
(* PauseAll = FALSE is the code as found: the phase loop stops at the      *)
(* first phase that is not open, so a pause never reaches the delegated    *)
(* phases behind it (known finding C09; negative control).                 *)
(* PauseAll = TRUE: a paused pass goes on to propagate the pause to the    *)
(* existing phase objects behind a failing phase (without creating any).   *)
(***************************************************************************)
EXTENDS RemotePhase, Sequences, FiniteSets, TLC

CONSTANTS N, Deleg, PauseAll, MaxUser, MaxWork, MaxTP

VARIABLES set,    \* the ObjectSet: [life, deleting, fin, gone, avail, paused (status), archived]
          ph,     \* [Deleg -> phase object]
          loc,    \* [1..N \ Deleg -> "absent" | "notready" | "ready"]  objects of in-process phases
          pc,     \* ObjectSet controller pass
          bud, lastw
vars == <<set, ph, loc, pc, bud, lastw>>

Ph == 1..N
Local == Ph \ Deleg
NoPh == [ ex |-> FALSE, paused |-> FALSE, gen |-> 0, avail |-> "none", availGen |-> 0, deleting |-> FALSE, fin |-> FALSE,
          objs |-> "absent", stPaused |-> FALSE ]
Idle == [ st |-> "idle" ]
NoW == [ actor |-> "-", op |-> "-", j |-> 0, gate |-> TRUE, tdok |-> TRUE ]

Init ==
    /\ set = [ life |-> "Active", deleting |-> FALSE, fin |-> FALSE, gone |-> FALSE, avail |-> "none", paused |-> FALSE, archived |-> FALSE ]
    /\ ph = [ j \in Deleg |-> NoPh ]
    /\ loc = [ j \in Local |-> "absent" ]
    /\ pc = Idle
    /\ bud = [ user |-> 0, work |-> 0, tp |-> 0 ]
    /\ lastw = NoW

Read(j) == [ ex |-> ph[j].ex, paused |-> ph[j].paused, gen |-> ph[j].gen, avail |-> ph[j].avail, availGen |-> ph[j].availGen ]
ObjsOf(j) == IF j \in Deleg THEN ph[j].objs ELSE loc[j]
PhaseAbsent(j) == IF j \in Deleg THEN ~ph[j].ex ELSE loc[j] = "absent"

\* ---------------- ObjectSet controller ----------------
Teardown == set.deleting \/ set.life = "Archived"

OS_Begin ==
    /\ pc.st = "idle" /\ ~set.gone /\ ~(set.life = "Archived" /\ set.archived)
    /\ IF Teardown
         THEN pc' = IF set.fin THEN [ st |-> "td", j |-> N, paused |-> FALSE, open |-> TRUE, prop |-> FALSE, read |-> NoPh, seen |-> {} ]
                    ELSE [ st |-> "release", j |-> 0, paused |-> FALSE, open |-> TRUE, prop |-> FALSE, read |-> NoPh, seen |-> {} ]
         ELSE pc' = [ st |-> "phase", j |-> 1, paused |-> set.life = "Paused", open |-> TRUE, prop |-> FALSE, read |-> NoPh, seen |-> {} ]
    /\ set' = IF Teardown THEN set ELSE [ set EXCEPT !.fin = TRUE ]
    /\ lastw' = NoW /\ UNCHANGED <<ph, loc, bud>>

\* where the pass goes after phase j gave verdict v
After(p0, v) ==
    LET p == [ p0 EXCEPT !.seen = @ \cup {p0.j} ]
        open == p.open /\ v = "open" IN
    IF p.j = N THEN [ p EXCEPT !.st = "status", !.open = open ]
    ELSE IF v = "open" \/ p.prop THEN [ p EXCEPT !.j = @ + 1, !.open = open ]
    ELSE IF PauseAll /\ p.paused THEN [ p EXCEPT !.j = @ + 1, !.open = FALSE, !.prop = TRUE ]     \* go on, only to propagate the pause
    ELSE [ p EXCEPT !.st = "status", !.open = FALSE ]

\* an in-process phase: one atomic step (paused or propagate-only: observe)
OS_Local ==
    /\ pc.st = "phase" /\ pc.j \in Local
    /\ LET j == pc.j
           creates == ~pc.paused /\ ~pc.prop /\ loc[j] = "absent"
           n == IF creates THEN "notready" ELSE loc[j] IN
       /\ loc' = [ loc EXCEPT ![j] = n ]
       /\ pc' = After(pc, IF n = "ready" THEN "open" ELSE "failing")
       /\ lastw' = IF creates THEN [ actor |-> "os", op |-> "objects", j |-> j, gate |-> pc.open, tdok |-> TRUE ] ELSE NoW
    /\ UNCHANGED <<set, ph, bud>>

\* a delegated phase: Get through the manager client, then the write RemotePhase!RemoteOp asks for
OS_PhGet ==
    /\ pc.st = "phase" /\ pc.j \in Deleg
    /\ LET r == Read(pc.j)
           op == RemoteOp(pc.paused, r) IN
       pc' = IF op = "create" /\ pc.prop THEN After(pc, "nostatus")              \* propagate-only: nothing is created
             ELSE IF op = "none" THEN After(pc, Verdict(r))
             ELSE [ pc EXCEPT !.st = op, !.read = ph[pc.j] ]
    /\ lastw' = NoW /\ UNCHANGED <<set, ph, loc, bud>>

OS_PhCreate ==
    /\ pc.st = "create"
    /\ LET j == pc.j IN
       IF ph[j].ex THEN pc' = Idle /\ UNCHANGED ph /\ lastw' = NoW                 \* AlreadyExists: the pass fails
       ELSE /\ ph' = [ ph EXCEPT ![j] = [ NoPh EXCEPT !.ex = TRUE, !.paused = pc.paused, !.gen = 1 ] ]
            /\ pc' = After([ pc EXCEPT !.st = "phase" ], PassVerdict(pc.paused, Read(j)))
            /\ lastw' = [ actor |-> "os", op |-> "phaseobject", j |-> j, gate |-> pc.open, tdok |-> TRUE ]
    /\ UNCHANGED <<set, loc, bud>>

OS_PhPatch ==
    /\ pc.st = "patch"
    /\ LET j == pc.j IN
       IF ph[j] # pc.read THEN pc' = Idle /\ UNCHANGED ph /\ lastw' = NoW          \* Conflict / NotFound: the pass fails
       ELSE /\ ph' = [ ph EXCEPT ![j].paused = pc.paused, ![j].gen = @ + 1 ]
            /\ pc' = After([ pc EXCEPT !.st = "phase" ], PassVerdict(pc.paused, Read(j)))
            /\ lastw' = [ actor |-> "os", op |-> "pausepatch", j |-> j, gate |-> TRUE, tdok |-> TRUE ]
    /\ UNCHANGED <<set, loc, bud>>

\* Status().Update: Available, and Paused = paused and every delegated phase reports Paused
OS_Status ==
    /\ pc.st = "status"
    /\ set' = [ set EXCEPT !.avail = IF pc.open THEN "True" ELSE "False",
                           !.paused = pc.paused /\ \A j \in Deleg : ph[j].ex => ph[j].stPaused ]
    /\ pc' = Idle
    /\ lastw' = [ actor |-> "os", op |-> "status", j |-> 0, gate |-> TRUE, tdok |-> TRUE, paused |-> pc.paused, reached |-> pc.seen ]
    /\ UNCHANGED <<ph, loc, bud>>

\* teardown, phases in reverse order; a phase that is not confirmed absent ends the pass
LaterAbsent(j) == \A i \in Ph : i > j => PhaseAbsent(i)
OS_TD ==
    /\ pc.st = "td"
    /\ LET j == pc.j IN
       IF PhaseAbsent(j)
         THEN /\ pc' = IF j = 1 THEN [ pc EXCEPT !.st = "release" ] ELSE [ pc EXCEPT !.j = @ - 1 ]
              /\ UNCHANGED <<ph, loc>> /\ lastw' = NoW
       ELSE IF j \in Local
         THEN /\ loc' = [ loc EXCEPT ![j] = "absent" ] /\ UNCHANGED ph /\ pc' = Idle
              /\ lastw' = [ actor |-> "os", op |-> "delete", j |-> j, gate |-> TRUE, tdok |-> LaterAbsent(j) ]
         ELSE /\ ph' = [ ph EXCEPT ![j] = IF @.fin THEN [ @ EXCEPT !.deleting = TRUE ] ELSE NoPh ] /\ UNCHANGED loc /\ pc' = Idle
              /\ lastw' = [ actor |-> "os", op |-> "delete", j |-> j, gate |-> TRUE, tdok |-> LaterAbsent(j) ]
    /\ UNCHANGED <<set, bud>>

OS_Release ==
    /\ pc.st = "release"
    /\ set' = IF set.deleting THEN [ set EXCEPT !.gone = TRUE, !.fin = FALSE ]
              ELSE [ set EXCEPT !.archived = TRUE, !.fin = FALSE, !.avail = "none" ]
    /\ pc' = Idle
    /\ lastw' = [ actor |-> "os", op |-> "release", j |-> 0, gate |-> TRUE, tdok |-> \A i \in Ph : PhaseAbsent(i) ]
    /\ UNCHANGED <<ph, loc, bud>>

OSNext == OS_Begin \/ OS_Local \/ OS_PhGet \/ OS_PhCreate \/ OS_PhPatch \/ OS_Status \/ OS_TD \/ OS_Release

\* ---------------- ObjectSetPhase controller (abstract) ----------------
PH_Reconcile(j) ==
    /\ ph[j].ex /\ ~ph[j].deleting
    /\ LET o == ph[j]
           objs == IF o.paused \/ o.objs # "absent" THEN o.objs ELSE "notready"
           n == [ o EXCEPT !.fin = TRUE, !.objs = objs, !.stPaused = o.paused,
                           !.avail = IF objs = "ready" THEN "True" ELSE "False", !.availGen = o.gen ] IN
       /\ n # o
       /\ ph' = [ ph EXCEPT ![j] = n ]
       /\ lastw' = [ actor |-> "ph", op |-> IF objs # o.objs THEN "objects" ELSE "status", j |-> j, gate |-> TRUE, tdok |-> TRUE ]
    /\ UNCHANGED <<set, loc, pc, bud>>

PH_Teardown(j) ==
    /\ ph[j].ex /\ ph[j].deleting
    /\ ph' = [ ph EXCEPT ![j] = IF @.objs # "absent" THEN [ @ EXCEPT !.objs = "absent" ] ELSE NoPh ]
    /\ lastw' = NoW /\ UNCHANGED <<set, loc, pc, bud>>

\* ---------------- environment ----------------
Workload(j) ==
    /\ bud.work < MaxWork /\ ObjsOf(j) \in {"notready", "ready"}
    /\ LET n == IF ObjsOf(j) = "ready" THEN "notready" ELSE "ready" IN
       IF j \in Deleg THEN ph' = [ ph EXCEPT ![j].objs = n ] /\ UNCHANGED loc
       ELSE loc' = [ loc EXCEPT ![j] = n ] /\ UNCHANGED ph
    /\ bud' = [ bud EXCEPT !.work = @ + 1 ] /\ lastw' = NoW /\ UNCHANGED <<set, pc>>

UserLife(l) ==
    /\ bud.user < MaxUser /\ ~set.gone /\ ~set.deleting /\ set.life # l /\ set.life # "Archived"
    /\ set' = [ set EXCEPT !.life = l ]
    /\ bud' = [ bud EXCEPT !.user = @ + 1 ] /\ lastw' = NoW /\ UNCHANGED <<ph, loc, pc>>

UserDelete ==
    /\ bud.user < MaxUser /\ ~set.gone /\ ~set.deleting
    /\ set' = IF set.fin THEN [ set EXCEPT !.deleting = TRUE ] ELSE [ set EXCEPT !.gone = TRUE ]
    /\ bud' = [ bud EXCEPT !.user = @ + 1 ] /\ lastw' = NoW /\ UNCHANGED <<ph, loc, pc>>

\* a third party deletes a phase object (the ObjectSet re-creates it)
TPDeletePhase(j) ==
    /\ bud.tp < MaxTP /\ ph[j].ex /\ ~ph[j].deleting
    /\ ph' = [ ph EXCEPT ![j] = IF @.fin THEN [ @ EXCEPT !.deleting = TRUE ] ELSE NoPh ]
    /\ bud' = [ bud EXCEPT !.tp = @ + 1 ] /\ lastw' = NoW /\ UNCHANGED <<set, loc, pc>>

EnvNext == \/ \E j \in Ph : Workload(j)
           \/ \E l \in {"Active", "Paused", "Archived"} : UserLife(l)
           \/ UserDelete
           \/ \E j \in Deleg : TPDeletePhase(j)

PhNext == \E j \in Deleg : PH_Reconcile(j) \/ PH_Teardown(j)

Next == OSNext \/ PhNext \/ EnvNext
Spec == Init /\ [][Next]_vars
FairSpec == Spec /\ WF_vars(OSNext) /\ WF_vars(PhNext)

-----------------------------------------------------------------------------
TypeOK == /\ set.life \in {"Active", "Paused", "Archived"}
          /\ \A j \in Deleg : ph[j].objs \in {"absent", "notready", "ready"}

\* C03: nothing of a phase is created before every earlier phase was seen open in the same pass
Inv_C03_Gate == (lastw.actor = "os" /\ lastw.op \in {"objects", "phaseobject"}) => lastw.gate

\* C09: the phase controller writes no object while its phase object is paused
Inv_C09_PhaseHandsOff == (lastw.actor = "ph" /\ lastw.op = "objects") => ~ph[lastw.j].paused

\* C09: after a complete pass of a paused ObjectSet every phase object the loop REACHED is paused ...
Inv_C09_PauseReachesReached ==
    (lastw.actor = "os" /\ lastw.op = "status" /\ lastw.paused)
    => \A j \in Deleg : (ph[j].ex /\ ~ph[j].deleting /\ j \in lastw.reached) => ph[j].paused
\* ... and so is every other existing phase object (known finding: fails with PauseAll = FALSE)
Inv_C09_PauseReachesAll ==
    (lastw.actor = "os" /\ lastw.op = "status" /\ lastw.paused)
    => \A j \in Deleg : (ph[j].ex /\ ~ph[j].deleting) => ph[j].paused

\* C04: a phase is deleted only when every later phase is confirmed absent; the ObjectSet is released only when all are
Inv_C04_ReverseOrder == (lastw.actor = "os" /\ lastw.op = "delete") => lastw.tdok
Inv_C04_Release == (lastw.actor = "os" /\ lastw.op = "release") => lastw.tdok
\* C15: phase objects are deleted by the ObjectSet controller only while tearing down
Inv_C15_PhaseObjectLifetime == (lastw.actor = "os" /\ lastw.op = "delete" /\ lastw.j \in Deleg) => Teardown

\* liveness (bounded disturbances, fair controllers)
Quiet == bud.user = MaxUser /\ bud.work = MaxWork /\ bud.tp = MaxTP
PhaseReady(j) == ObjsOf(j) = "ready" /\ (j \in Deleg => (ph[j].ex /\ ~ph[j].deleting))
\* an active ObjectSet ends up with every phase the gate lets it reach rolled out, and reports Available iff all are ready
Live_Rollout ==
    <>[]((Quiet /\ ~set.gone /\ ~set.deleting /\ set.life = "Active")
           => /\ \A j \in Ph : (\A i \in Ph : i < j => PhaseReady(i)) => ObjsOf(j) # "absent"
              /\ (set.avail = "True") <=> \A j \in Ph : PhaseReady(j))
\* a deleted ObjectSet ends up gone, an archived one archived, with nothing left behind
Live_Teardown ==
    <>[](Quiet => /\ (set.deleting => set.gone)
                  /\ (set.life = "Archived" /\ ~set.gone => set.archived)
                  /\ ((set.gone \/ set.archived) => \A j \in Ph : PhaseAbsent(j)))
=============================================================================
