-------------------------- MODULE PKOTeardownRace --------------------------
(***************************************************************************)
(* The teardown of an outgoing revision and the rollout of the incoming    *)
(* one meet at an object both contain.  One manager reconciles ObjectSets  *)
(* one at a time, so the two passes only interleave when they belong to    *)
(* different controllers: the outgoing revision's phase is delegated       *)
(* (ObjectSetPhase controller tears it down) and the incoming revision's   *)
(* is local (ObjectSet controller), or the other way round.  PKO.tla has a *)
(* single worker; here this interleaving is the whole model                *)
(* (internal/controllers/phase_reconciler.go: teardownPhaseObject,         *)
(* reconcileObject).                                                       *)
(*                                                                         *)
(*   T (teardown of revision 1):  uncached read -> still controller?       *)
(*        yes: Delete with preconditions uid (+ resourceVersion iff PinRV) *)
(*        no, but owner: merge patch removing its own owner reference      *)
(*                       (+ resourceVersion iff PinPatch)                  *)
(*   N (rollout of revision 2, previous = revision 1): read -> PKOCore     *)
(*        ladder -> forced apply adopting the object; creates it if absent *)
(*   a third party may re-own the object once (EnvReown).                  *)
(*                                                                         *)
(* C05 / C08: an object is deleted only while the deleting revision is its *)
(* controller - so an object the incoming revision has adopted in place is *)
(* never deleted during the handover; the co-owner clean-up removes the    *)
(* revision's own entry from the CURRENT owner list and nothing else.      *)
(* Both hold with PinRV = PinPatch = TRUE (the code, after fix e6a0367).   *)
(* Negative controls: PinRV = FALSE (seeded change C08 round 4: the delete *)
(* carries only the uid) deletes an adopted object; PinPatch = FALSE (the  *)
(* code as found, defect C05 fixed by e6a0367) overwrites a concurrent     *)
(* owner change.                                                           *)
(***************************************************************************)
EXTENDS PKOCore, Integers, TLC

CONSTANTS PinRV, PinPatch, MaxPass, MaxEnv

VARIABLES obj,    \* [exists, inc, owners, aowners, rev, pkoLabel, ver]
          t, n,   \* the two workers: [st, read]
          bud, uidc, lastw
vars == <<obj, t, n, bud, uidc, lastw>>

R1 == [ id |-> "rev1", uid |-> 1, ctrl |-> TRUE ]
Prev2 == { [ id |-> "rev1", uid |-> 1, remote |-> <<>> ] }
Gone == [ exists |-> FALSE, inc |-> 0, owners |-> <<>>, aowners |-> <<>>, rev |-> 0, pkoLabel |-> FALSE, ver |-> 0 ]
NoW == [ op |-> "-", pre |-> Gone, post |-> Gone ]

Init == /\ obj = [ exists |-> TRUE, inc |-> 1, owners |-> << R1 >>, aowners |-> <<>>, rev |-> 1, pkoLabel |-> TRUE, ver |-> 1 ]
        /\ t = [ st |-> "idle", read |-> Gone ] /\ n = [ st |-> "idle", read |-> Gone ]
        /\ bud = [ pass |-> 0, env |-> 0 ] /\ uidc = 2 /\ lastw = NoW

\* ---------------- teardown of revision 1 ----------------
TRead ==
    /\ t.st = "idle" /\ bud.pass < MaxPass
    /\ t' = [ st |-> "act", read |-> obj ]
    /\ bud' = [ bud EXCEPT !.pass = @ + 1 ] /\ lastw' = NoW /\ UNCHANGED <<obj, n, uidc>>

TAct ==
    /\ t.st = "act"
    /\ LET r == t.read IN
       IF ~r.exists THEN UNCHANGED obj /\ lastw' = NoW                       \* gone: nothing to do
       ELSE IF IsControllerL("rev1", 1, r.owners)
         THEN \* Delete, preconditions: uid, and the resourceVersion that was read iff PinRV
              IF obj.exists /\ obj.inc = r.inc /\ (PinRV => obj.ver = r.ver)
                THEN obj' = Gone /\ lastw' = [ op |-> "delete", pre |-> obj, post |-> Gone ]
                ELSE UNCHANGED obj /\ lastw' = NoW                            \* Conflict / NotFound: retried
       ELSE IF IsOwnerL("rev1", 1, r.owners)
         THEN \* co-owner clean-up: merge patch setting the owner list computed from the READ
              IF obj.exists /\ obj.inc = r.inc /\ (PinPatch => obj.ver = r.ver)
                THEN LET p == [ obj EXCEPT !.owners = RemoveOwnerL("rev1", 1, r.owners), !.ver = @ + 1 ] IN
                     obj' = p /\ lastw' = [ op |-> "release", pre |-> obj, post |-> p ]
                ELSE UNCHANGED obj /\ lastw' = NoW
       ELSE UNCHANGED obj /\ lastw' = NoW
    /\ t' = [ t EXCEPT !.st = "idle" ]
    /\ UNCHANGED <<n, bud, uidc>>

\* ---------------- rollout of revision 2 ----------------
NRead ==
    /\ n.st = "idle" /\ bud.pass < MaxPass
    /\ n' = [ st |-> "act", read |-> obj ]
    /\ bud' = [ bud EXCEPT !.pass = @ + 1 ] /\ lastw' = NoW /\ UNCHANGED <<obj, t, uidc>>

NAct ==
    /\ n.st = "act"
    /\ LET r == n.read IN
       IF ~r.exists
         THEN \* create (server-side apply on an absent object); if somebody created it meanwhile the apply adopts by force
              LET c == [ exists |-> TRUE, inc |-> IF obj.exists THEN obj.inc ELSE uidc, owners |-> << [ id |-> "rev2", uid |-> 2, ctrl |-> TRUE ] >>,
                         aowners |-> <<>>, rev |-> 2, pkoLabel |-> TRUE, ver |-> IF obj.exists THEN obj.ver + 1 ELSE 1 ] IN
              /\ obj' = c /\ uidc' = IF obj.exists THEN uidc ELSE uidc + 1
              /\ lastw' = [ op |-> "create", pre |-> obj, post |-> c ]
         ELSE LET v == Adopt("native", "rev2", 2, 2, r, Prev2, "Prevent", FALSE) IN
              IF v \in {"Adopt", "AlreadyOwner"} /\ obj.exists
                THEN LET a == [ obj EXCEPT !.owners = AfterAdoptNative("rev2", 2, r.owners), !.rev = 2, !.ver = @ + 1 ] IN
                     obj' = a /\ lastw' = [ op |-> "adopt", pre |-> obj, post |-> a ] /\ UNCHANGED uidc
                ELSE UNCHANGED <<obj, uidc>> /\ lastw' = NoW
    /\ n' = [ n EXCEPT !.st = "idle" ]
    /\ UNCHANGED <<t, bud>>

\* a third party replaces the owner references by its own controller reference
EnvReown ==
    /\ bud.env < MaxEnv /\ obj.exists
    /\ obj' = [ obj EXCEPT !.owners = << [ id |-> "foreign", uid |-> 9, ctrl |-> TRUE ] >>, !.ver = @ + 1 ]
    /\ bud' = [ bud EXCEPT !.env = @ + 1 ] /\ lastw' = NoW /\ UNCHANGED <<t, n, uidc>>

Next == TRead \/ TAct \/ NRead \/ NAct \/ EnvReown
Spec == Init /\ [][Next]_vars

-----------------------------------------------------------------------------
TypeOK == t.st \in {"idle", "act"} /\ n.st \in {"idle", "act"}

\* C05 / C08: whatever the interleaving, an object is deleted only while the deleting revision controls it -
\* an object the incoming revision has adopted in place is never deleted during the handover
Inv_C05_DeletedWasControlled == (lastw.op = "delete") => IsControllerL("rev1", 1, lastw.pre.owners)
Inv_C08_AdoptedNotDeleted    == (lastw.op = "delete") => ~IsControllerL("rev2", 2, lastw.pre.owners)
\* C05: the co-owner clean-up removes the revision's own entry from the current owner list and changes nothing else
Inv_C05_ReleaseOnlyOwnEntry  == (lastw.op = "release") => lastw.post.owners = RemoveOwnerL("rev1", 1, lastw.pre.owners)
=============================================================================
