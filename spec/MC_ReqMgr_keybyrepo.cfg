SPECIFICATION Spec
CONSTANTS
  Callers <- MCCallers
  Images <- MCImages
  MaxReq = 2
  KeyByRepo = TRUE
INVARIANT Inv_C20_RightContent
CHECK_DEADLOCK FALSE
