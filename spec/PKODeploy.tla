----------------------------- MODULE PKODeploy -----------------------------
(***************************************************************************)
(* Design model of the revision layer of package-operator:                 *)
(*                                                                         *)
(*   Package deployer (pk)  --template+slices-->  ObjectDeployment         *)
(*   ObjectDeployment controller (od)  --creates / pauses / archives /     *)
(*                                       prunes-->  ObjectSets (revisions) *)
(*                                                                         *)
(* One action per API call of an ObjectDeployment pass (internal/          *)
(* controllers/objectdeployments: hash_reconciler, objectset_reconciler,   *)
(* new_revision_reconciler, archive_reconciler) and of the deployer's      *)
(* slice handling (internal/packages/internal/packagedeploy/               *)
(* deployment_reconciler.go).  The ObjectSet controller is abstracted to   *)
(* atomic steps (PKO.tla is its fine-grained model): report revision,      *)
(* reconcile (take over the template's objects, report availability),      *)
(* report Paused, complete archival, complete deletion.                    *)
(*                                                                         *)
(* What the pass decides is a pure function of what it read (the           *)
(* deployment snapshot and the listed ObjectSets): Plan(snap, L).  The same*)
(* operators are evaluated on recorded passes of the real controller by    *)
(* TraceObs.tla (Inv_C07_PlanConforms / Inv_C08_PlanConforms), so the model *)
(* and the code are bound at the level of every single decision.           *)
(***************************************************************************)
EXTENDS DeployPlan, TLC

CONSTANTS Tmpl,        \* template identities
          Obj,         \* object identities
          TObjs,       \* [Tmpl -> SUBSET Obj] objects listed by a template
          MaxColl,     \* bound of status.collisionCount
          HistLimit,   \* revisionHistoryLimit
          Lag,         \* TRUE: the manager cache shows a created ObjectSet late
          WithPk,      \* TRUE: templates are written by the package deployer, with ObjectSlices and slice GC
          AtomicOd,    \* TRUE: no other actor moves between an od pass's read of the deployment and its end
          MaxPkFail,   \* how often the deployer's update of the ObjectDeployment is answered with a server error
          GCAfterFailedUpdate,  \* FALSE = the code: a failed update ends the deployer's pass; TRUE (seeded change C14 round 5): slice GC runs anyway
          MaxEdit, MaxPause, MaxWork, MaxCrash, MaxLagEdit   \* budgets

Names == Tmpl \X (0..MaxColl)              \* ObjectSet name = <deployment>-hash(template, collisionCount)
NoName == <<"-", 0>>

NoSet == [ ex |-> FALSE, inc |-> 0, tmpl |-> "-", prev |-> {}, rev |-> 0, avail |-> FALSE, life |-> "Active",
           mark |-> FALSE, stPaused |-> FALSE, cofSet |-> FALSE, cof |-> {}, vis |-> FALSE, del |-> FALSE, epoch |-> 0,
           objs |-> {}, hash |-> NoName ]

VARIABLES dep,      \* the ObjectDeployment: [tmpl, coll, paused, strev (status.revision), epoch]
          sets,     \* [Names -> set record]
          slices,   \* set of templates whose ObjectSlice exists (slice content = the template's objects)
          want,     \* template the Package asks for (WithPk)
          od,       \* ObjectDeployment pass
          pk,       \* deployer pass
          bud,      \* budgets used
          incc,     \* incarnation counter
          stale,    \* resourceVersion abstraction: [od: names written by others since the od pass listed them,
                    \*   odDep / pkDep: the deployment was written by someone else since the pass read it]
          lastw     \* ghost: the last write, for the properties
vars == <<dep, sets, slices, want, od, pk, bud, incc, stale, lastw>>

IdleOd == [ pc |-> "idle", snap |-> [tmpl |-> "-", coll |-> 0, paused |-> FALSE, strev |-> 0, epoch |-> 0],
            L |-> [n \in Names |-> NoSet], plan |-> <<>>, coll |-> 0, cur |-> {} ]
IdlePk == [ pc |-> "idle", want |-> "-", refs |-> {}, seen |-> {}, sl |-> {}, fails |-> 0 ]
NoStale == [ od |-> {}, odDep |-> FALSE, pkDep |-> FALSE ]
NoWrite == [ actor |-> "-", op |-> "-", n |-> NoName, s |-> "-" ]

-----------------------------------------------------------------------------
(* the decision function of a pass is DeployPlan!Plan (shared with the trace specification) *)
PlanSnap(snap) == [ paused |-> snap.paused, hash |-> <<snap.tmpl, snap.coll>>, limit |-> HistLimit, nonEmpty |-> TObjs[snap.tmpl] # {} ]

-----------------------------------------------------------------------------
Init ==
    /\ dep = [ tmpl |-> CHOOSE t \in Tmpl : TRUE, coll |-> 0, paused |-> FALSE, strev |-> 0, epoch |-> 1 ]
    /\ sets = [ n \in Names |-> NoSet ]
    /\ slices = IF WithPk THEN {dep.tmpl} ELSE {}
    /\ want = dep.tmpl
    /\ od = IdleOd
    /\ pk = IdlePk
    /\ bud = [ edit |-> 0, pause |-> 0, work |-> 0, crash |-> 0, lagedit |-> 0 ]
    /\ incc = 0
    /\ stale = NoStale
    /\ lastw = NoWrite

OdBusy == od.pc # "idle"
Free == ~(AtomicOd /\ OdBusy)          \* other actors may move
Invisible == \E n \in Names : sets[n].ex /\ ~sets[n].vis

\* bookkeeping of "somebody else wrote it since I read it" (resourceVersion preconditions)
TouchSet(S) == [ stale EXCEPT !.od = IF od.pc = "run" THEN @ \cup S ELSE @ ]
TouchDep(by) == [ stale EXCEPT !.odDep = IF by # "od" /\ od.pc \in {"got", "run"} THEN TRUE ELSE @,
                               !.pkDep = IF by # "pk" /\ pk.pc \in {"slice", "update"} THEN TRUE ELSE @ ]

\* ---------------- ObjectDeployment pass ----------------
OD_Get ==
    /\ od.pc = "idle"
    /\ od' = [ IdleOd EXCEPT !.pc = "got", !.snap = dep, !.coll = dep.coll ]
    /\ stale' = [ stale EXCEPT !.odDep = FALSE, !.od = {} ]
    /\ lastw' = NoWrite
    /\ UNCHANGED <<dep, sets, slices, want, pk, bud, incc>>

OD_List ==
    /\ od.pc = "got"
    /\ LET L == [ n \in Names |-> IF sets[n].ex /\ sets[n].vis THEN sets[n] ELSE NoSet ] IN
       od' = [ od EXCEPT !.pc = "run", !.L = L, !.plan = Plan(PlanSnap(od.snap), L), !.cur = CurrentOf(PlanSnap(od.snap), L) ]
    /\ stale' = [ stale EXCEPT !.od = {} ]
    /\ lastw' = NoWrite
    /\ UNCHANGED <<dep, sets, slices, want, pk, bud, incc>>

\* a full-object Update of an ObjectSet from the pass's copy: needs the resourceVersion it holds
UpdateOk(n) == sets[n].ex /\ sets[n].inc = od.L[n].inc /\ n \notin stale.od
Apply(op, r) ==
    CASE op = "mark"    -> [ r EXCEPT !.life = "Paused", !.mark = TRUE ]
      [] op = "unmark"  -> [ r EXCEPT !.life = "Active", !.mark = FALSE ]
      [] op = "pause"   -> [ r EXCEPT !.life = "Paused" ]
      [] op = "archive" -> [ r EXCEPT !.life = "Archived" ]

OD_Update ==
    /\ od.pc = "run" /\ od.plan # <<>> /\ Head(od.plan).op \in {"mark", "unmark", "pause", "archive"}
    /\ LET o == Head(od.plan) IN
       IF UpdateOk(o.n)
       THEN /\ sets' = [ sets EXCEPT ![o.n] = Apply(o.op, @) ]
            /\ od' = [ od EXCEPT !.plan = Tail(@) ]
            /\ lastw' = [ actor |-> "od", op |-> o.op, n |-> o.n, s |-> "-" ]
       ELSE /\ od' = IdleOd /\ lastw' = NoWrite /\ UNCHANGED sets          \* Conflict / NotFound: the pass fails
    /\ UNCHANGED <<dep, slices, want, pk, bud, incc, stale>>

OD_Create ==
    /\ od.pc = "run" /\ od.plan # <<>> /\ Head(od.plan).op = "create"
    /\ LET o == Head(od.plan) IN
       IF ~sets[o.n].ex
       THEN /\ sets' = [ sets EXCEPT ![o.n] = [ NoSet EXCEPT !.ex = TRUE, !.inc = incc + 1, !.tmpl = o.n[1], !.prev = o.prev,
                                                              !.vis = ~Lag, !.epoch = od.snap.epoch, !.objs = TObjs[o.n[1]], !.hash = o.n ] ]
            /\ incc' = incc + 1
            /\ od' = [ od EXCEPT !.plan = Tail(@) ]
            /\ lastw' = [ actor |-> "od", op |-> "create", n |-> o.n, s |-> "-" ]
       ELSE \* AlreadyExists: read the conflicting ObjectSet through the cache
            /\ UNCHANGED <<sets, incc>> /\ lastw' = NoWrite
            /\ IF ~sets[o.n].vis THEN od' = IdleOd      \* NotFound from the cache: error, retried
               ELSE LET c == sets[o.n] IN
                    IF c.life # "Archived" /\ (c.rev = 0 \/ c.rev >= MaxRevOf(o.prev, od.L))
                    THEN od' = [ od EXCEPT !.plan = Tail(@) ]                       \* slow cache, no collision
                    ELSE od' = [ od EXCEPT !.plan = Tail(@), !.coll = IF @ < MaxColl THEN @ + 1 ELSE @ ]
    /\ UNCHANGED <<dep, slices, want, pk, bud, stale>>

\* plain Delete by name (no preconditions); the ObjectSet's finalizer keeps it until its teardown is done
OD_Delete ==
    /\ od.pc = "run" /\ od.plan # <<>> /\ Head(od.plan).op = "del"
    /\ LET o == Head(od.plan) IN
       /\ sets' = IF sets[o.n].ex /\ ~sets[o.n].del THEN [ sets EXCEPT ![o.n].del = TRUE ] ELSE sets
       /\ lastw' = IF sets[o.n].ex /\ ~sets[o.n].del THEN [ actor |-> "od", op |-> "del", n |-> o.n, s |-> "-" ] ELSE NoWrite
       /\ od' = [ od EXCEPT !.plan = Tail(@) ]
    /\ UNCHANGED <<dep, slices, want, pk, bud, incc, stale>>

\* Status().Update of the deployment: persists the collision counter and status.revision; needs the resourceVersion
\* read at the start.  A write that changes nothing does not change the resourceVersion.
StatusRev == IF od.cur # {} THEN od.L[CHOOSE n \in od.cur : TRUE].rev
             ELSE LET p == Sorted(Listed(od.L), od.L) IN IF p = <<>> THEN od.snap.strev ELSE od.L[p[1]].rev
OD_Status ==
    /\ od.pc = "run" /\ od.plan = <<>>
    /\ IF ~stale.odDep /\ (dep.coll # od.coll \/ dep.strev # StatusRev)
       THEN dep' = [ dep EXCEPT !.coll = od.coll, !.strev = StatusRev ] /\ stale' = TouchDep("od")
       ELSE UNCHANGED <<dep, stale>>
    /\ od' = IdleOd
    /\ lastw' = NoWrite
    /\ UNCHANGED <<sets, slices, want, pk, bud, incc>>

OD_Crash ==
    /\ OdBusy /\ bud.crash < MaxCrash
    /\ od' = IdleOd /\ bud' = [ bud EXCEPT !.crash = @ + 1 ]
    /\ lastw' = NoWrite
    /\ UNCHANGED <<dep, sets, slices, want, pk, incc, stale>>

\* ---------------- ObjectSet controller (abstract) ----------------
Live(n) == sets[n].ex /\ ~sets[n].del

OS_ReportRev(n) ==
    /\ Free /\ Live(n) /\ sets[n].rev = 0 /\ sets[n].life # "Archived"
    /\ \A p \in sets[n].prev : sets[p].ex /\ sets[p].rev # 0          \* else: NotFound error / wait
    /\ sets' = [ sets EXCEPT ![n].rev = MaxRevOf(sets[n].prev, sets) + 1 ]
    /\ stale' = TouchSet({n})
    /\ lastw' = [ actor |-> "os", op |-> "rev", n |-> n, s |-> "-" ]
    /\ UNCHANGED <<dep, slices, want, od, pk, bud, incc>>

\* an active revision reconciles: it takes the template's objects over from older revisions (C02) and reports
OS_Reconcile(n, a) ==
    /\ Free /\ Live(n) /\ sets[n].rev # 0 /\ sets[n].life = "Active"
    /\ (WithPk => sets[n].tmpl \in slices)                            \* its ObjectSlice can be loaded
    /\ LET objs == TObjs[sets[n].tmpl]
           \* objects controlled by a newer revision stay there
           taken == { o \in objs : ~\E m \in Names : m # n /\ sets[m].ex /\ sets[m].rev > sets[n].rev /\ o \in sets[m].cof }
           new == [ sets[n] EXCEPT !.cof = taken, !.cofSet = TRUE, !.avail = a /\ taken = objs, !.stPaused = FALSE ]
           changed == { m \in Names : m # n /\ sets[m].ex /\ sets[m].rev < sets[n].rev /\ (sets[m].cof \cap taken) # {} }
       IN /\ new # sets[n]                                           \* a reconcile that changes nothing writes nothing
          /\ (new.avail # sets[n].avail => bud.work < MaxWork)
          /\ sets' = [ m \in Names |-> IF m = n THEN new ELSE IF m \in changed THEN [ sets[m] EXCEPT !.cof = @ \ taken ] ELSE sets[m] ]
          /\ bud' = IF new.avail # sets[n].avail THEN [ bud EXCEPT !.work = @ + 1 ] ELSE bud
          /\ stale' = TouchSet({n} \cup changed)
    /\ lastw' = [ actor |-> "os", op |-> "reconcile", n |-> n, s |-> "-" ]
    /\ UNCHANGED <<dep, slices, want, od, pk, incc>>

OS_ReportPaused(n) ==
    /\ Free /\ Live(n) /\ sets[n].rev # 0 /\ sets[n].life = "Paused" /\ ~sets[n].stPaused
    /\ sets' = [ sets EXCEPT ![n].stPaused = TRUE ]
    /\ stale' = TouchSet({n})
    /\ lastw' = [ actor |-> "os", op |-> "paused", n |-> n, s |-> "-" ]
    /\ UNCHANGED <<dep, slices, want, od, pk, bud, incc>>

OS_Archive(n) ==
    /\ Free /\ Live(n) /\ sets[n].life = "Archived" /\ (sets[n].cof # {} \/ sets[n].avail \/ ~sets[n].cofSet)
    /\ (WithPk /\ sets[n].cof # {} => sets[n].tmpl \in slices)
    /\ sets' = [ sets EXCEPT ![n].cof = {}, ![n].cofSet = TRUE, ![n].avail = FALSE ]
    /\ stale' = TouchSet({n})
    /\ lastw' = [ actor |-> "os", op |-> "archived", n |-> n, s |-> "-" ]
    /\ UNCHANGED <<dep, slices, want, od, pk, bud, incc>>

OS_Deleted(n) ==
    /\ Free /\ sets[n].ex /\ sets[n].del
    /\ (WithPk /\ sets[n].cof # {} => sets[n].tmpl \in slices)
    /\ sets' = [ sets EXCEPT ![n] = NoSet ]
    /\ stale' = TouchSet({n})
    /\ lastw' = [ actor |-> "os", op |-> "gone", n |-> n, s |-> "-" ]
    /\ UNCHANGED <<dep, slices, want, od, pk, bud, incc>>

CacheSync(n) ==
    /\ Free /\ sets[n].ex /\ ~sets[n].vis
    /\ sets' = [ sets EXCEPT ![n].vis = TRUE ]
    /\ lastw' = NoWrite
    /\ UNCHANGED <<dep, slices, want, od, pk, bud, incc, stale>>

\* ---------------- users and the package deployer ----------------
EditBudget == /\ bud.edit < MaxEdit
              /\ (Invisible => bud.lagedit < MaxLagEdit)
SpendEdit == bud' = [ bud EXCEPT !.edit = @ + 1, !.lagedit = IF Invisible THEN @ + 1 ELSE @ ]

UserEdit(t) ==
    /\ Free /\ ~WithPk /\ t # dep.tmpl /\ EditBudget
    /\ dep' = [ dep EXCEPT !.tmpl = t, !.epoch = @ + 1 ]
    /\ stale' = TouchDep("user")
    /\ SpendEdit /\ lastw' = NoWrite
    /\ UNCHANGED <<sets, slices, want, od, pk, incc>>

UserWant(t) ==
    /\ Free /\ WithPk /\ t # want /\ EditBudget
    /\ want' = t
    /\ SpendEdit /\ lastw' = NoWrite
    /\ UNCHANGED <<dep, sets, slices, od, pk, incc, stale>>

UserPause ==
    /\ Free /\ bud.pause < MaxPause
    /\ dep' = [ dep EXCEPT !.paused = ~@ ]
    /\ stale' = TouchDep("user")
    /\ bud' = [ bud EXCEPT !.pause = @ + 1 ] /\ lastw' = NoWrite
    /\ UNCHANGED <<sets, slices, want, od, pk, incc>>

\* deployer pass: Get deployment, create the slice of the wanted template, Update the template (retry on conflict),
\* list ObjectSets, list slices, delete the unreferenced ones
PK_Get ==
    /\ Free /\ WithPk /\ pk.pc = "idle" /\ (want # dep.tmpl \/ \E s \in slices : s # dep.tmpl)
    /\ pk' = [ IdlePk EXCEPT !.pc = "slice", !.want = want, !.fails = pk.fails ]
    /\ stale' = [ stale EXCEPT !.pkDep = FALSE ]
    /\ lastw' = NoWrite
    /\ UNCHANGED <<dep, sets, slices, want, od, bud, incc>>
PK_CreateSlice ==
    /\ Free /\ pk.pc = "slice"
    /\ slices' = slices \cup {pk.want}
    /\ pk' = [ pk EXCEPT !.pc = "update" ]
    /\ lastw' = [ actor |-> "pk", op |-> "slice", n |-> NoName, s |-> pk.want ]
    /\ UNCHANGED <<dep, sets, want, od, bud, incc, stale>>
PK_Update ==
    /\ Free /\ pk.pc = "update"
    /\ IF ~stale.pkDep
       THEN /\ IF dep.tmpl = pk.want THEN UNCHANGED <<dep, stale>>
               ELSE dep' = [ dep EXCEPT !.tmpl = pk.want, !.epoch = @ + 1 ] /\ stale' = TouchDep("pk")
            /\ pk' = [ pk EXCEPT !.pc = "listsets" ]
       ELSE /\ UNCHANGED <<dep, pk>> /\ stale' = [ stale EXCEPT !.pkDep = FALSE ]      \* Conflict: Get again, retry
    /\ lastw' = [ actor |-> "pk", op |-> "template", n |-> NoName, s |-> pk.want ]
    /\ UNCHANGED <<sets, slices, want, od, bud, incc>>
\* the Update is answered with a server error: nothing is written. The pass ends - or (variant) goes on to the slice
\* GC, which computes the referenced slices from the IN-MEMORY template (the wanted one), not from what is stored
PK_UpdateFails ==
    /\ Free /\ pk.pc = "update" /\ ~stale.pkDep /\ dep.tmpl # pk.want /\ pk.fails < MaxPkFail
    /\ pk' = IF GCAfterFailedUpdate THEN [ pk EXCEPT !.pc = "listsets", !.fails = @ + 1 ] ELSE [ IdlePk EXCEPT !.fails = pk.fails + 1 ]
    /\ lastw' = NoWrite
    /\ UNCHANGED <<dep, sets, slices, want, od, bud, incc, stale>>
PK_ListSets ==
    /\ Free /\ pk.pc = "listsets"
    /\ pk' = [ pk EXCEPT !.pc = "listslices", !.refs = { sets[n].tmpl : n \in { m \in Names : sets[m].ex /\ sets[m].vis } },
                         !.seen = { sets[n].inc : n \in { m \in Names : sets[m].ex /\ sets[m].vis } } ]
    /\ lastw' = NoWrite
    /\ UNCHANGED <<dep, sets, slices, want, od, bud, incc, stale>>
PK_ListSlices ==
    /\ Free /\ pk.pc = "listslices"
    /\ pk' = [ pk EXCEPT !.pc = "gc", !.sl = slices \ ({pk.want} \cup pk.refs) ]
    /\ lastw' = NoWrite
    /\ UNCHANGED <<dep, sets, slices, want, od, bud, incc, stale>>
PK_Delete ==
    /\ Free /\ pk.pc = "gc"
    /\ IF pk.sl = {} THEN /\ pk' = [ IdlePk EXCEPT !.fails = pk.fails ] /\ UNCHANGED slices /\ lastw' = NoWrite
       ELSE LET s == CHOOSE x \in pk.sl : TRUE IN
            /\ slices' = slices \ {s}
            /\ pk' = [ pk EXCEPT !.sl = @ \ {s} ]
            /\ lastw' = [ actor |-> "pk", op |-> "gc", n |-> NoName, s |-> s ]
    /\ UNCHANGED <<dep, sets, want, od, bud, incc, stale>>

Next ==
    \/ OD_Get \/ OD_List \/ OD_Update \/ OD_Create \/ OD_Delete \/ OD_Status \/ OD_Crash
    \/ \E n \in Names : OS_ReportRev(n) \/ OS_ReportPaused(n) \/ OS_Archive(n) \/ OS_Deleted(n) \/ CacheSync(n)
    \/ \E n \in Names, a \in BOOLEAN : OS_Reconcile(n, a)
    \/ \E t \in Tmpl : UserEdit(t) \/ UserWant(t)
    \/ UserPause
    \/ PK_Get \/ PK_CreateSlice \/ PK_Update \/ PK_UpdateFails \/ PK_ListSets \/ PK_ListSlices \/ PK_Delete

Spec == Init /\ [][Next]_vars

-----------------------------------------------------------------------------
(* Properties *)

Existing == { n \in Names : sets[n].ex }
Reported == { n \in Existing : sets[n].rev # 0 }

\* C07: revision numbers are unique among the revisions of a deployment
Inv_C07_RevisionsUnique == \A n, m \in Reported : n # m => sets[n].rev # sets[m].rev
\* C07: at most one ObjectSet is created per template change
Inv_C07_AtMostOnePerTemplateEpoch ==
    \A n, m \in Existing : n # m => sets[n].epoch # sets[m].epoch
\* C07: a new revision names every existing revision as previous
Inv_C07_PreviousComplete ==
    (lastw.actor = "od" /\ lastw.op = "create")
    => \A m \in Existing \ {lastw.n} : sets[m].vis => m \in sets[lastw.n].prev
\* C07: a reported revision number exceeds those of all its previous revisions
Inv_C07_RevisionIncreasing ==
    \A n \in Reported : \A p \in sets[n].prev : (sets[p].ex /\ sets[p].rev # 0) => sets[p].rev < sets[n].rev \/ sets[p].inc > sets[n].inc

Newest == { n \in Reported : \A m \in Reported : sets[m].rev <= sets[n].rev }
\* C08: only revisions that report Paused are archived
Inv_C08_ArchiveOnlyPaused == (lastw.actor = "od" /\ lastw.op = "archive") => sets[lastw.n].stPaused
\* C08: the newest revision is neither archived nor deleted by the deployment controller
Inv_C08_NewestNeverArchived ==
    (lastw.actor = "od" /\ lastw.op \in {"archive", "del"} /\ Cardinality(Newest) = 1 /\ ~\E m \in Existing : sets[m].rev = 0)
    => lastw.n \notin Newest
\* C08: an archived revision is unavailable or superseded by an available later revision, and controls nothing the
\* incoming revision needs (case 3)
Inv_C08_ArchiveCondition ==
    (lastw.actor = "od" /\ lastw.op = "archive")
    => \/ \E m \in Existing : od.L[m].ex /\ od.L[m].avail /\ od.L[m].rev > od.L[lastw.n].rev
       \/ (~od.L[lastw.n].avail /\ \E m \in Existing : od.L[m].ex /\ od.L[m].rev > od.L[lastw.n].rev
                                                       /\ (TObjs[od.L[m].tmpl] \cap od.L[lastw.n].cof) = {})
\* C08: pruning removes the oldest revisions only
Inv_C08_PruneOldestOnly ==
    (lastw.actor = "od" /\ lastw.op = "del")
    => \A m \in Listed(od.L) : (od.L[m].rev < od.L[lastw.n].rev) => (~sets[m].ex \/ sets[m].del \/ sets[m].inc # od.L[m].inc)
\* C08: pruning never removes a revision that is not archived (it may still be serving; fix 244db63)
Inv_C08_PruneOnlyHistory == (lastw.actor = "od" /\ lastw.op = "del") => od.L[lastw.n].life = "Archived" \/ sets[lastw.n].life = "Archived"
\* C09: a paused deployment creates, archives and prunes nothing
Inv_C09_PausedNoRevisionChange ==
    (lastw.actor = "od" /\ lastw.op \in {"create", "archive", "del", "pause"}) => ~od.snap.paused

\* C14: slice GC never deletes a slice referenced by the template or by an existing ObjectSet
Inv_C14_GCInstant ==
    (lastw.actor = "pk" /\ lastw.op = "gc") => (lastw.s # dep.tmpl /\ \A n \in Existing : sets[n].tmpl # lastw.s)
\* ... the decision: nothing referenced by an ObjectSet that existed when the pass listed them
Inv_C14_GCDecision ==
    (lastw.actor = "pk" /\ lastw.op = "gc") => (lastw.s # dep.tmpl /\ \A n \in Existing : sets[n].inc \in pk.seen => sets[n].tmpl # lastw.s)

TypeOK == /\ od.pc \in {"idle", "got", "run"} /\ pk.pc \in {"idle", "slice", "update", "listsets", "listslices", "gc"}
          /\ dep.coll \in 0..MaxColl
=============================================================================
