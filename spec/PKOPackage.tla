----------------------------- MODULE PKOPackage -----------------------------
(***************************************************************************)
(* Design model of the Package controller's unpack / deploy / record cycle *)
(* (internal/controllers/packages/package_controller.go,                   *)
(* unpack_reconciler.go, internal/packages/internal/packagedeploy/         *)
(* deployer.go, deployment_reconciler.go), one action per API call:        *)
(*                                                                         *)
(*   Get Package -> Get ObjectDeployment (pause propagation)               *)
(*   -> unpackedHash = hash(spec) ? nothing to do                          *)
(*   -> Pull image -> (load, validate, constraints: Class of the spec)     *)
(*   -> Get / Create ObjectDeployment -> Update template (retry on         *)
(*      conflict) -> Status().Update recording unpackedHash                *)
(*                                                                         *)
(* A Package spec is abstracted to an identity s in Specs with a class     *)
(* (valid, invalid, pullError); the template a valid spec renders to is s  *)
(* itself.  API calls can fail (budgeted), the manager can restart, the    *)
(* user edits and pauses the Package, the ObjectDeployment controller      *)
(* touches the deployment (status writes bump its resourceVersion).        *)
(*                                                                         *)
(* Atomic = FALSE is the code as found: deploying the template and         *)
(* recording unpackedHash are two writes.  If the second fails and the     *)
(* user then reverts the spec to the one recorded earlier, the short cut   *)
(* keeps the other template for ever (known finding C16; negative          *)
(* control).  Atomic = TRUE makes the pair one step: Inv_TemplateIsRender  *)
(* holds.                                                                  *)
(*                                                                         *)
(* Environment (C13): a render also takes the environment of the Package's *)
(* namespace (HyperShift: the hosted cluster of that namespace; this       *)
(* Package's namespace hosts none).  The controller keeps the probed       *)
(* environment in a sink shared by all Packages it unpacks                 *)
(* (internal/environment/environment.go, Sink.GetEnvironment).  CopyEnv =  *)
(* TRUE: every pass works on its own deep copy.  CopyEnv = FALSE (a seeded *)
(* change the trace checks caught): unpacking a neighbour Package in a     *)
(* hosted cluster's namespace leaves that cluster in the sink, and the     *)
(* next render of this Package - same files, spec and environment - gives  *)
(* another template.                                                       *)
(***************************************************************************)
EXTENDS Integers, FiniteSets, TLC

CONSTANTS Specs, Class, Atomic, CopyEnv, RecordOnFailedPull, MaxEdit, MaxFault, MaxTouch

VARIABLES pkg,   \* [spec, paused, unpacked (spec recorded in status.unpackedHash, or "-"), invalid (Invalid condition)]
          dep,   \* [ex, tmpl, env (the environment the template was rendered with), paused]
          sink,  \* hosted cluster recorded in the controller's environment sink ("none" as probed)
          pc,    \* pass
          bud, stale, lastw
vars == <<pkg, dep, sink, pc, bud, stale, lastw>>
EnvOfP == IF CopyEnv THEN "none" ELSE sink

Idle == [ st |-> "idle" ]
NoW == [ op |-> "-" ]

Init == /\ pkg = [ spec |-> CHOOSE s \in Specs : TRUE, paused |-> FALSE, unpacked |-> "-", invalid |-> FALSE ]
        /\ dep = [ ex |-> FALSE, tmpl |-> "-", env |-> "-", paused |-> FALSE ] /\ sink = "none"
        /\ pc = Idle
        /\ bud = [ edit |-> 0, fault |-> 0, touch |-> 0 ]
        /\ stale = [ pkg |-> FALSE, dep |-> FALSE ]      \* written by somebody else since the pass read it
        /\ lastw = NoW

Fault == bud.fault < MaxFault
SpendFault == bud' = [ bud EXCEPT !.fault = @ + 1 ]
End(ok) == pc' = Idle

\* Get Package
PK_Get ==
    /\ pc.st = "idle"
    /\ pc' = [ st |-> "getdep", snap |-> pkg, pulled |-> FALSE ]
    /\ stale' = [ stale EXCEPT !.pkg = FALSE ]
    /\ lastw' = NoW /\ UNCHANGED <<pkg, dep, bud>>

\* Get ObjectDeployment; propagate spec.paused (Update); a paused Package stops here
PK_GetDep ==
    /\ pc.st = "getdep"
    /\ IF dep.ex /\ dep.paused # pc.snap.paused
         THEN /\ dep' = [ dep EXCEPT !.paused = pc.snap.paused ] /\ lastw' = [ op |-> "pausedep" ]
         ELSE /\ UNCHANGED dep /\ lastw' = NoW
    /\ pc' = IF pc.snap.paused THEN [ pc EXCEPT !.st = "status0" ]
             ELSE IF pc.snap.unpacked = pc.snap.spec THEN [ pc EXCEPT !.st = "status0" ]     \* already unpacked: short cut
             ELSE [ pc EXCEPT !.st = "pull" ]
    /\ stale' = [ stale EXCEPT !.dep = FALSE ]
    /\ UNCHANGED <<pkg, bud>>

\* pull + load + validate + constraints
PK_Pull ==
    /\ pc.st = "pull"
    /\ \/ /\ Class[pc.snap.spec] = "pullError" /\ pc' = [ pc EXCEPT !.st = "statusfail" ] /\ UNCHANGED bud
       \/ /\ Class[pc.snap.spec] = "invalid" /\ pc' = [ pc EXCEPT !.st = "statusinvalid", !.pulled = TRUE ] /\ UNCHANGED bud
       \/ /\ Class[pc.snap.spec] = "valid" /\ pc' = [ pc EXCEPT !.st = "deploy", !.pulled = TRUE ] /\ UNCHANGED bud
       \/ /\ Fault /\ SpendFault /\ End(FALSE)                                         \* registry error: retried
    /\ lastw' = [ op |-> "pull", paused |-> pc.snap.paused, spec |-> pc.snap.spec, unpacked |-> pc.snap.unpacked ] /\ UNCHANGED <<pkg, dep, stale>>

\* create the deployment if absent, then Update its template (conflict: Get again and retry)
PK_Deploy ==
    /\ pc.st = "deploy"
    /\ \/ /\ ~dep.ex /\ dep' = [ ex |-> TRUE, tmpl |-> "-", env |-> "-", paused |-> FALSE ] /\ UNCHANGED <<pkg, pc, stale, bud>>
          /\ lastw' = [ op |-> "createdep", paused |-> pc.snap.paused ]
       \/ /\ dep.ex /\ stale.dep /\ stale' = [ stale EXCEPT !.dep = FALSE ] /\ UNCHANGED <<pkg, dep, pc, bud>>  \* Conflict -> Get -> retry
          /\ lastw' = NoW
       \/ /\ dep.ex /\ ~stale.dep
          /\ dep' = [ dep EXCEPT !.tmpl = pc.snap.spec, !.env = EnvOfP ]
          /\ lastw' = [ op |-> "template", spec |-> pc.snap.spec, paused |-> pc.snap.paused ]
          /\ IF Atomic
               THEN \* deploy and record in one step
                    /\ pkg' = [ pkg EXCEPT !.unpacked = pc.snap.spec, !.invalid = FALSE ] /\ End(TRUE) /\ UNCHANGED <<stale, bud>>
               ELSE pc' = [ pc EXCEPT !.st = "record" ] /\ UNCHANGED <<pkg, stale, bud>>
       \/ /\ Fault /\ SpendFault /\ End(FALSE) /\ UNCHANGED <<pkg, dep, stale>> /\ lastw' = NoW

\* Status().Update: unpackedHash := hash(spec read), Invalid condition
Record(newUnpacked, invalid) ==
    \/ /\ ~stale.pkg
       /\ pkg' = [ pkg EXCEPT !.unpacked = newUnpacked, !.invalid = invalid ]
       /\ lastw' = [ op |-> "record", spec |-> newUnpacked, pulled |-> pc.pulled, snap |-> pc.snap ] /\ UNCHANGED bud
    \/ /\ stale.pkg /\ UNCHANGED <<pkg, bud>> /\ lastw' = NoW                          \* Conflict
    \/ /\ Fault /\ SpendFault /\ UNCHANGED pkg /\ lastw' = NoW                         \* request lost
PK_Record        == pc.st = "record"        /\ Record(pc.snap.spec, FALSE) /\ End(TRUE) /\ UNCHANGED <<dep, stale>>
PK_StatusInvalid == pc.st = "statusinvalid" /\ Record(pc.snap.spec, TRUE) /\ End(TRUE) /\ UNCHANGED <<dep, stale>>
\* (RecordOnFailedPull = TRUE, a seeded change the trace checks caught: the hash of the spec is recorded although the pull
\* failed - the next pass finds "already unpacked" and never pulls again)
PK_StatusFail    == pc.st = "statusfail"    /\ Record(IF RecordOnFailedPull THEN pc.snap.spec ELSE pc.snap.unpacked, pc.snap.invalid)
                                            /\ End(FALSE) /\ UNCHANGED <<dep, stale>>
PK_Status0       == pc.st = "status0"       /\ Record(pc.snap.unpacked, pc.snap.invalid) /\ End(TRUE) /\ UNCHANGED <<dep, stale>>

PK_Crash == /\ pc.st # "idle" /\ Fault /\ SpendFault /\ pc' = Idle /\ lastw' = NoW /\ UNCHANGED <<pkg, dep, stale>>

PKNext == PK_Get \/ PK_GetDep \/ PK_Pull \/ PK_Deploy \/ PK_Record \/ PK_StatusInvalid \/ PK_StatusFail \/ PK_Status0 \/ PK_Crash

\* environment
UserEdit(s) ==
    /\ bud.edit < MaxEdit /\ s # pkg.spec
    /\ pkg' = [ pkg EXCEPT !.spec = s ] /\ stale' = [ stale EXCEPT !.pkg = TRUE ]
    /\ bud' = [ bud EXCEPT !.edit = @ + 1 ] /\ lastw' = NoW /\ UNCHANGED <<dep, pc>>
UserPause ==
    /\ bud.edit < MaxEdit
    /\ pkg' = [ pkg EXCEPT !.paused = ~@ ] /\ stale' = [ stale EXCEPT !.pkg = TRUE ]
    /\ bud' = [ bud EXCEPT !.edit = @ + 1 ] /\ lastw' = NoW /\ UNCHANGED <<dep, pc>>
\* the ObjectDeployment controller writes the deployment's status
TouchDep ==
    /\ bud.touch < MaxTouch /\ dep.ex
    /\ stale' = [ stale EXCEPT !.dep = TRUE ] /\ bud' = [ bud EXCEPT !.touch = @ + 1 ]
    /\ lastw' = NoW /\ UNCHANGED <<pkg, dep, pc>>

\* a neighbour Package in a hosted cluster's namespace is unpacked by the same controller (same sink): with its own copy
\* of the environment nothing is left behind; without, the sink keeps the neighbour's hosted cluster
NeighbourUnpack ==
    /\ bud.touch < MaxTouch
    /\ sink' = IF CopyEnv THEN sink ELSE "one"
    /\ bud' = [ bud EXCEPT !.touch = @ + 1 ] /\ lastw' = NoW /\ UNCHANGED <<pkg, dep, pc, stale>>
\* the environment manager's periodic probe replaces the sink's content
ProbeEnv == /\ sink # "none" /\ sink' = "none" /\ lastw' = NoW /\ UNCHANGED <<pkg, dep, pc, bud, stale>>

PKStep == PKNext /\ UNCHANGED sink
Next == PKStep \/ (((\E s \in Specs : UserEdit(s)) \/ UserPause \/ TouchDep) /\ UNCHANGED sink) \/ NeighbourUnpack \/ ProbeEnv
Spec == Init /\ [][Next]_vars
FairSpec == Spec /\ WF_vars(PKStep)

-----------------------------------------------------------------------------
TypeOK == pc.st \in {"idle", "getdep", "pull", "deploy", "record", "statusinvalid", "statusfail", "status0"}

\* C16: the deployment template is only ever a render of a valid spec
Inv_C16_NoDeployUnlessAdmissible == (lastw.op = "template") => Class[lastw.spec] = "valid"
\* C16 / C09: a paused Package pulls and deploys nothing
Inv_C09_PackagePaused == (lastw.op \in {"pull", "template", "createdep"}) => ~lastw.paused
\* C16: an unchanged spec is not pulled again
Inv_C16_NoRepull == (lastw.op = "pull") => lastw.unpacked # lastw.spec
\* C16: what is recorded as unpacked was pulled in this pass, or was recorded before
Inv_C16_RecordJustified == (lastw.op = "record" /\ lastw.spec # lastw.snap.unpacked) => lastw.pulled

\* C16: at rest (no pass in flight, the spec recorded as unpacked, valid, not paused) the template is a render of the spec
\* -- violated by the code as found (Atomic = FALSE) after a failed record + revert
Inv_C16_TemplateIsRender ==
    (pc.st = "idle" /\ ~pkg.paused /\ Class[pkg.spec] = "valid" /\ pkg.unpacked = pkg.spec) => (dep.ex /\ dep.tmpl = pkg.spec)

\* C13: the template is rendered with the environment of the Package's own namespace ...
Inv_C13_EnvIsOwn == (dep.ex /\ dep.tmpl # "-") => dep.env = "none"
\* ... so a re-render of an unchanged spec leaves the deployment as it is (no new revision)
Act_C13_UnchangedKeepsTemplate == [][(dep.ex /\ dep'.ex /\ dep.tmpl # "-" /\ dep'.tmpl = dep.tmpl) => dep'.env = dep.env]_vars

\* liveness: once edits and faults are used up, a valid spec ends up deployed and recorded
Quiet == bud.edit = MaxEdit /\ bud.fault = MaxFault /\ bud.touch = MaxTouch
Live_C16_Converges ==
    <>[]((Quiet /\ ~pkg.paused /\ Class[pkg.spec] = "valid") => (dep.ex /\ dep.tmpl = pkg.spec /\ pkg.unpacked = pkg.spec))
=============================================================================
