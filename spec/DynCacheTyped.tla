---------------------------- MODULE DynCacheTyped ----------------------------
(* Apalache-typed copy of the state machine of DynCache.tla (Rollback = "full") with an inductive invariant:
   InformerIffOwned and HandlersAttached hold for ANY number of owners, kinds and operations (not only the
   bounds TLC explores). Checked with:
     apalache-mc check --init=IndInit --inv=IndInv --length=1 --cinit=CInit DynCacheTyped.tla     (inductive step)
     apalache-mc check --init=Init    --inv=IndInv --length=0 --cinit=CInit DynCacheTyped.tla     (base case)   *)
EXTENDS Naturals, FiniteSets

CONSTANTS
    \* @type: Set(Str);
    Owners,
    \* @type: Set(Str);
    Kinds

VARIABLES
    \* @type: Str -> Set(Str);
    refs,
    \* @type: Set(Str);
    running,
    \* @type: Set(Str);
    attached

CInit == Owners = {"o1", "o2", "o3"} /\ Kinds = {"k1", "k2", "k3"}

Init == refs = [ k \in Kinds |-> {} ] /\ running = {} /\ attached = {}

\* f: "none" | "create" | "sync"
Fails(f) == f \in {"create", "sync"}
Watch(o, k, f) ==
    \/ /\ refs[k] # {}
       /\ refs' = [ refs EXCEPT ![k] = @ \cup {o} ] /\ running' = running /\ attached' = attached
    \/ /\ refs[k] = {} /\ Fails(f) /\ k \notin running                                      \* failed start: full rollback
       /\ refs' = refs /\ running' = running /\ attached' = attached
    \/ /\ refs[k] = {} /\ ~(Fails(f) /\ k \notin running)
       /\ refs' = [ refs EXCEPT ![k] = {o} ] /\ running' = running \cup {k} /\ attached' = attached \cup {k}

Free(o) ==
    LET stop == { k \in Kinds : o \in refs[k] /\ refs[k] \ {o} = {} } IN
    /\ refs' = [ k \in Kinds |-> refs[k] \ {o} ]
    /\ running' = running \ stop
    /\ attached' = attached \ stop

Read(k, f) ==
    \/ /\ (refs[k] = {} \/ k \in running \/ Fails(f))
       /\ refs' = refs /\ running' = running /\ attached' = attached
    \/ /\ refs[k] # {} /\ k \notin running /\ ~Fails(f)
       /\ running' = running \cup {k} /\ refs' = refs /\ attached' = attached

Next == \/ \E o \in Owners, k \in Kinds, f \in {"none", "create", "sync"} : Watch(o, k, f)
        \/ \E o \in Owners : Free(o)
        \/ \E k \in Kinds, f \in {"none", "create", "sync"} : Read(k, f)

TypeOK == /\ refs \in [ Kinds -> SUBSET Owners ] /\ running \subseteq Kinds /\ attached \subseteq Kinds
IndInv == /\ TypeOK
          /\ running = { k \in Kinds : refs[k] # {} }       \* Inv_C12_InformerIffOwned
          /\ running \subseteq attached                      \* Inv_C12_HandlersAttached
IndInit == /\ refs \in [ Kinds -> SUBSET Owners ] /\ running \in SUBSET Kinds /\ attached \in SUBSET Kinds
           /\ IndInv
===============================================================================
