---- MODULE MC_DynCache ----
EXTENDS DynCache
MCOwners == {"o1", "o2"}
MCKinds == {"k1", "k2"}
====
