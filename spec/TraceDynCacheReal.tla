------------------------- MODULE TraceDynCacheReal -------------------------
(***************************************************************************)
(* Trace specification for C12 with the REAL informer map                  *)
(* (dynamiccache.NewCache against a list/watch API server, driver          *)
(* c12-real): besides the reference bookkeeping of DynCache.tla            *)
(* (Rollback = "full") it observes what only real informers show - the     *)
(* watch streams open on the server and the delivery of events to the      *)
(* registered handlers:                                                    *)
(*   an owned kind is served by exactly one open stream, an un-owned kind  *)
(*   by none - also after the context of the Watch call that started the   *)
(*   informer is over -, and an object appearing on the server reaches     *)
(*   every handler iff its kind is owned.                                  *)
(***************************************************************************)
EXTENDS Naturals, Sequences, FiniteSets, TLC, Json

CONSTANT TraceFile
Trace == ndJsonDeserialize(TraceFile)
Range(s) == { s[i] : i \in DOMAIN s }

Owners == { Trace[i].args.owner : i \in { j \in DOMAIN Trace : Trace[j].ev = "C12Real" } } \ {""}
Kinds  == {"k1", "k2", "k3", "k4"}    \* k3 / k4: one kind served in two API versions (two resources on the server)
Rollback == "full"
MaxFail == 0

VARIABLES l, model, obs, lw
vars == <<l, model, obs, lw>>

M == INSTANCE DynCache WITH refs <- model.refs, running <- model.running, attached <- model.attached, fails <- 0,
                            last <- [ op |-> "", kind |-> "", owner |-> "", result |-> "", wasOwned |-> FALSE ]

Empty == [ refs |-> [ k \in Kinds |-> {} ], running |-> {}, attached |-> {} ]
NoObs == [ refs |-> [ k \in Kinds |-> {} ], serving |-> <<>> ]

Init == /\ l = 1 /\ model = Empty /\ obs = NoObs /\ lw = [ valid |-> FALSE, e |-> Trace[1], owned |-> FALSE ]
E == Trace[l]

TrReset == /\ l <= Len(Trace) /\ E.ev = "Reset"
           /\ model' = Empty /\ obs' = NoObs /\ lw' = [ valid |-> FALSE, e |-> E, owned |-> FALSE ] /\ l' = l + 1

Step(e) ==
    CASE e.args.op = "Watch" -> M!WatchF(model, e.args.owner, e.args.kind, "none").st
      [] e.args.op = "Free"  -> M!FreeF(model, e.args.owner).st
      [] e.args.op = "End"   -> Empty
      [] OTHER -> model

TrOp == /\ l <= Len(Trace) /\ E.ev = "C12Real"
        /\ model' = Step(E)
        /\ obs' = [ refs |-> [ k \in Kinds |-> Range(E.args.state.refs[k]) ], serving |-> E.args.state.serving ]
        /\ lw' = [ valid |-> TRUE, e |-> E, owned |-> IF E.args.kind \in Kinds THEN model.refs[E.args.kind] # {} ELSE FALSE ]
        /\ l' = l + 1

Next == TrReset \/ TrOp
Spec == Init /\ [][Next]_vars
Accepted == TLCGet("stats").diameter - 1 = Len(Trace)
Alias == [ l |-> l, event |-> lw.e.i ]

Count(s, k) == Cardinality({ i \in DOMAIN s : s[i] = k })

\* reference bookkeeping as in the model; no call fails
Inv_C12_MatchesReferenceModel == lw.valid => (obs.refs = model.refs /\ lw.e.args.result = "ok")
\* exactly one open watch stream per owned kind, none for a kind nobody watches
Inv_C12_InformerIffOwned == lw.valid => \A k \in Kinds : Count(obs.serving, k) = (IF obs.refs[k] # {} THEN 1 ELSE 0)
\* an object that appears on the server reaches every registered handler iff its kind is owned
Inv_C12_HandlersAttached ==
    (lw.valid /\ lw.e.args.op = "Probe") => lw.e.args.delivered = (IF lw.owned THEN lw.e.args.handlers ELSE 0)
=============================================================================
