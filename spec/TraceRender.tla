---------------------------- MODULE TraceRender ----------------------------
(* Trace specification for C13: every abstract package rendered k times by the real pipeline is compared with Render.tla. *)
EXTENDS Render, TLC, Json

CONSTANT TraceFile
Trace == ndJsonDeserialize(TraceFile)
Range(s) == { s[i] : i \in DOMAIN s }

VARIABLES l, lw
vars == <<l, lw>>
Init == l = 1 /\ lw = [ valid |-> FALSE, e |-> Trace[1] ]
Next == /\ l <= Len(Trace) /\ Trace[l].ev \in {"Reset", "C13Row", "C13Funcs"}
        /\ lw' = [ valid |-> Trace[l].ev # "Reset", e |-> Trace[l] ] /\ l' = l + 1
Spec == Init /\ [][Next]_vars
Accepted == TLCGet("stats").diameter - 1 = Len(Trace)
Alias == [ l |-> l, event |-> lw.e.i ]

IsRow == lw.valid /\ lw.e.ev = "C13Row"
A == lw.e.args

\* repeated renders (Go randomises map iteration on every range loop) give identical templates and hashes
Inv_C13_Deterministic == IsRow => A.differing = 0

\* loses or duplicates no object; phases in manifest order; objects in path-then-document order
Inv_C13_Conservation ==
    (IsRow /\ ~A.pkg.crossRead) =>
        IF Invalid(A.pkg) THEN A.out.err # ""
        ELSE A.out.err = "" /\ A.out.phases = Expected(A.pkg)

Inv_C13_LabelsAndAnnotations == (IsRow /\ A.out.err = "") => (A.out.labels /\ A.out.clean)

Inv_C13_FuncAllowList == (lw.valid /\ lw.e.ev = "C13Funcs") => Range(A.funcs) \cap ImpureFuncs = {}
=============================================================================
