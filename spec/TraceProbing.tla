---------------------------- MODULE TraceProbing ----------------------------
(* Trace specification for C17: every row executed on the real prober is compared with Probing.tla. *)
EXTENDS Probing, TLC, Json

CONSTANT TraceFile
Trace == ndJsonDeserialize(TraceFile)

VARIABLES l, lw
vars == <<l, lw>>
Init == l = 1 /\ lw = [ valid |-> FALSE, e |-> Trace[1] ]
Next == /\ l <= Len(Trace) /\ Trace[l].ev \in {"Reset", "C17Row"}
        /\ lw' = [ valid |-> Trace[l].ev = "C17Row", e |-> Trace[l] ] /\ l' = l + 1
Spec == Init /\ [][Next]_vars
Accepted == TLCGet("stats").diameter - 1 = Len(Trace)
Alias == [ l |-> l, event |-> lw.e.i ]

A == lw.e.args

Inv_C17_Verdict ==
    (lw.valid /\ A.panic = "" /\ ~ParseFails(A.probes)) => (~A.parseErr /\ A.success = Pass(A.probes, A.obj))
Inv_C17_AllFailuresReported ==
    (lw.valid /\ A.panic = "" /\ ~ParseFails(A.probes) /\ ~A.parseErr) => A.nmsgs = Msgs(A.probes, A.obj)
Inv_C17_CELMustBeBoolean ==
    (lw.valid /\ A.panic = "" /\ ParseFails(A.probes)) => A.parseErr
Inv_C17_ObjectUnchanged == lw.valid => A.unchanged
Inv_C17_NoPanic == lw.valid => A.panic = ""
=============================================================================
