------------------------------- MODULE Shapes -------------------------------
(***************************************************************************)
(* Shape classes of externally controlled inputs (property C19, reduced    *)
(* scope: classes, not bytes).  Entry = the real entry point the class is  *)
(* fed to (harness/sim/c19.go); Rows is the complete domain: the trace     *)
(* specification requires every row to be executed and none to panic,      *)
(* time out or recurse without bound.                                      *)
(***************************************************************************)
EXTENDS Naturals, Sequences, FiniteSets

Shapes_cli_tree_condmap == {"badLine2", "empty", "emptyLeft", "emptyRight", "noArrow", "onlySpaces", "twoLines", "valid"}
Shapes_cli_tree_manifest == {"celConditionBad", "celPathNonBool", "duplicatePhases", "emptyFile", "noPhases", "noScopes", "notYAML", "probeNoSelector", "wrongKind"}
Shapes_cli_tree_object == {"annotationsStr", "celAnnotBad", "celAnnotNonBool", "labelsList", "noKind", "noName", "notAMap", "tmplRecursion", "unknownPhase"}
Shapes_cli_validate_condmap == {"badLine2", "empty", "emptyLeft", "emptyRight", "noArrow", "onlySpaces", "twoLines", "valid"}
Shapes_cli_validate_manifest == {"celConditionBad", "celPathNonBool", "duplicatePhases", "emptyFile", "noPhases", "noScopes", "notYAML", "probeNoSelector", "wrongKind"}
Shapes_objectset_status == {"absent", "condIntValues", "condNoReason", "condNoStatus", "condNoType", "condNotAMap", "condNull", "condOGString", "condsNotAList", "curIntValues", "curNoMessage", "curNoReason", "curNoStatus", "curNoType", "nestedDeep", "notAMap", "ogFloat", "ogString", "wellFormed"}
Shapes_objectset_stored_conditions == {"allMapped", "mappedFirst", "mappedLast", "mappedMiddle", "none", "onlyMapped", "twoAdjacent", "twoApart"}
Shapes_deployment_stored_conditions == {"allMapped", "mappedFirst", "mappedLast", "mappedMiddle", "none", "onlyMapped", "twoAdjacent", "twoApart"}
Shapes_objectset_probes == {"emptyList", "emptyProbe", "twoEmptyProbes"}
Shapes_oci_import == {"absolutePath", "badSecondHeader", "dotdot", "duplicate", "emptyLayer", "garbage", "outsideDir", "streamError", "truncated", "valid"}
Shapes_render_condmap == {"badLine2", "empty", "emptyLeft", "emptyRight", "noArrow", "onlySpaces", "twoLines", "valid"}
Shapes_render_include == {"finiteDepth", "mutualRecursion", "recurseAfterLeaf", "recurseTwice", "selfRecursion"}
Shapes_render_manifest == {"celConditionBad", "celPathNonBool", "duplicatePhases", "emptyFile", "noPhases", "noScopes", "notYAML", "probeNoSelector", "wrongKind"}
Shapes_render_object == {"annotationsStr", "celAnnotBad", "celAnnotNonBool", "labelsList", "noKind", "noName", "notAMap", "tmplRecursion", "unknownPhase"}
Shapes_template_include == {"finiteDepth", "mutualRecursion", "recurseAfterLeaf", "recurseTwice", "selfRecursion"}
Shapes_template_output == {"badTemplate", "emptyOutput", "noKind", "noName", "notAMap", "notYAML", "scalar"}
Shapes_template_source_item == {"destClash", "destDotOnly", "destNested", "destNoDot", "emptyDest", "emptyKey", "keyBadJSONPath", "keyBraces", "keyMissing", "keyNoDot", "valid"}
Shapes_template_source_patch == {"patchAccepted", "patchRejected"}
Shapes_template_target_status == {"absent", "condIntValues", "condNoReason", "condNoStatus", "condNoType", "condNotAMap", "condNull", "condOGString", "condsNotAList", "curIntValues", "curNoMessage", "curNoReason", "curNoStatus", "curNoType", "nestedDeep", "notAMap", "ogFloat", "ogString", "wellFormed"}

Rows == { <<"cli-tree-condmap", s>> : s \in Shapes_cli_tree_condmap } \cup
        { <<"cli-tree-manifest", s>> : s \in Shapes_cli_tree_manifest } \cup
        { <<"cli-tree-object", s>> : s \in Shapes_cli_tree_object } \cup
        { <<"cli-validate-condmap", s>> : s \in Shapes_cli_validate_condmap } \cup
        { <<"cli-validate-manifest", s>> : s \in Shapes_cli_validate_manifest } \cup
        { <<"objectset-status", s>> : s \in Shapes_objectset_status } \cup
        { <<"oci-import", s>> : s \in Shapes_oci_import } \cup
        { <<"objectset-probes", s>> : s \in Shapes_objectset_probes } \cup
        { <<"objectset-stored-conditions", s>> : s \in Shapes_objectset_stored_conditions } \cup
        { <<"deployment-stored-conditions", s>> : s \in Shapes_deployment_stored_conditions } \cup
        { <<"render-include", s>> : s \in Shapes_render_include } \cup
        { <<"template-include", s>> : s \in Shapes_template_include } \cup
        { <<"template-source-patch", s>> : s \in Shapes_template_source_patch } \cup
        { <<"render-condmap", s>> : s \in Shapes_render_condmap } \cup
        { <<"render-manifest", s>> : s \in Shapes_render_manifest } \cup
        { <<"render-object", s>> : s \in Shapes_render_object } \cup
        { <<"template-output", s>> : s \in Shapes_template_output } \cup
        { <<"template-source-item", s>> : s \in Shapes_template_source_item } \cup
        { <<"template-target-status", s>> : s \in Shapes_template_target_status }
=============================================================================
