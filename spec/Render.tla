------------------------------- MODULE Render -------------------------------
(***************************************************************************)
(* Package rendering as a pure function (property C13).                    *)
(*                                                                         *)
(* Abstract package (harness/sim/c13.go concretises it):                   *)
(*   files   : Seq([idx, docs : Seq([phase, cel])])  ascending idx, idx is *)
(*             the file's position in the statement's path-then-document   *)
(*             order ('/' sorts before every other byte):                  *)
(*             1 a.yaml  2 b/x.yaml  3 b.yaml  4 c.yaml(.gotmpl)  5 d/z.yml *)
(*             6 e.yaml(.gotmpl)                                           *)
(*   excludeD: conditional path d/** evaluates to false                    *)
(* Expected ObjectSet template: phases in manifest order (p1, p2), empty   *)
(* phases dropped, every object that passes validation and the CEL / path  *)
(* filters exactly once, in file order then document order.                *)
(***************************************************************************)
EXTENDS Naturals, Sequences, FiniteSets

ManifestPhases == <<"p1", "p2">>

\* an object whose phase annotation is missing ("none"), or is not exactly the name of a manifest phase ("p1ws": the name
\* with a trailing blank, "unknown": some other name) fails validation: the whole render is rejected
\* ("empty": a document without content is no object: it is neither rendered nor validated)
Invalid(p) == \E i \in DOMAIN p.files : \E d \in DOMAIN p.files[i].docs :
                 /\ p.files[i].docs[d].phase # "empty"
                 /\ ~\E j \in DOMAIN ManifestPhases : p.files[i].docs[d].phase = ManifestPhases[j]

Flatten(ss) == LET F[i \in 0..Len(ss)] == IF i = 0 THEN <<>> ELSE F[i - 1] \o ss[i] IN F[Len(ss)]

\* all (file, doc) in path-then-document order that survive the filters
Kept(p) ==
    Flatten([ i \in DOMAIN p.files |->
        IF p.excludeD /\ p.files[i].idx = 5 THEN <<>>
        ELSE SelectSeq([ d \in DOMAIN p.files[i].docs |-> [ f |-> p.files[i].idx, d |-> d, phase |-> p.files[i].docs[d].phase,
                                                            cel |-> p.files[i].docs[d].cel ] ],
                       LAMBDA x : x.cel # "false") ])

PhaseRow(p, ph) == LET k == SelectSeq(Kept(p), LAMBDA x : x.phase = ph) IN
                   [ name |-> ph, objs |-> [ i \in DOMAIN k |-> <<k[i].f, k[i].d>> ] ]

Expected(p) == SelectSeq([ j \in DOMAIN ManifestPhases |-> PhaseRow(p, ManifestPhases[j]) ], LAMBDA r : r.objs # <<>>)

\* template functions that reach clock, randomness, environment, network or key material (Sprig names)
ImpureFuncs == {"now", "date", "dateInZone", "date_in_zone", "dateModify", "date_modify", "mustDateModify", "must_date_modify",
                "ago", "htmlDate", "htmlDateInZone", "duration", "durationRound", "unixEpoch", "toDate", "mustToDate",
                "env", "expandenv", "randAlphaNum", "randAlpha", "randAscii", "randNumeric", "randBytes", "randInt", "shuffle",
                "uuidv4", "genPrivateKey", "genCA", "genCAWithKey", "genSelfSignedCert", "genSelfSignedCertWithKey",
                "genSignedCert", "genSignedCertWithKey", "buildCustomCert", "encryptAES", "decryptAES", "bcrypt", "htpasswd",
                "derivePassword", "getHostByName", "readFile", "readDir", "glob", "lookup", "exec"}
=============================================================================
