------------------------------- MODULE ReqMgr -------------------------------
(***************************************************************************)
(* Design model of packageimport.RequestManager (property C20): parallel   *)
(* requests for the same image share one registry pull.                    *)
(*                                                                         *)
(* Granularity = the code's critical sections:                             *)
(*   Register(c,i)  handleRequest under inFlightLock: start a pull         *)
(*                  goroutine iff the image has no entry, append receiver  *)
(*   PullReturn(i)  the pull function returns (outside the lock)           *)
(*   Broadcast(i)   handleResponse under the lock: one deep copy per       *)
(*                  receiver, entry deleted                                *)
(*   Receive(c)     the caller takes the response from its buffered channel*)
(***************************************************************************)
EXTENDS Naturals, Sequences, FiniteSets

CONSTANTS Callers, Images, MaxReq,     \* MaxReq: requests per caller
          KeyByRepo                    \* FALSE = the code: the in-flight map is keyed by the image reference. TRUE (negative
                                       \* control, seeded change C20 round 5): keyed by the repository - two tags share an entry

\* the key under which an image is registered in the in-flight map
Key(i) == IF KeyByRepo THEN "repo" ELSE i
Keys == { Key(i) : i \in Images }

VARIABLES inflight,   \* [Keys -> Seq(Callers)] registered receivers; <<>> + ~has means no entry
          has,        \* [Keys -> BOOLEAN] the key has an entry in the in-flight map
          pulling,    \* [Keys -> Nat] pulls currently inside the pull function
          result,     \* [Keys -> Nat] id of the pull result waiting to be broadcast (0 = none)
          imgOf,      \* Seq(Images): the image pull number n fetches
          asked,      \* [Callers -> Seq(<<image asked for, pull id received>>)]
          pullSeq,    \* pulls started so far
          wait,       \* [Callers -> image the caller is blocked on, or ""]
          mailbox,    \* [Callers -> Seq(pull ids)] the caller's buffered channel
          got,        \* [Callers -> Seq(pull ids)] responses received
          reqs,       \* [Callers -> Nat] requests issued
          regAt       \* [Callers -> pull ids in flight when the caller registered]

vars == <<inflight, has, pulling, result, imgOf, asked, pullSeq, wait, mailbox, got, reqs, regAt>>

Init == /\ inflight = [ i \in Keys |-> <<>> ] /\ has = [ i \in Keys |-> FALSE ]
        /\ pulling = [ i \in Keys |-> 0 ] /\ result = [ i \in Keys |-> 0 ] /\ pullSeq = 0
        /\ imgOf = <<>> /\ asked = [ c \in Callers |-> <<>> ]
        /\ wait = [ c \in Callers |-> "" ] /\ mailbox = [ c \in Callers |-> <<>> ]
        /\ got = [ c \in Callers |-> <<>> ] /\ reqs = [ c \in Callers |-> 0 ] /\ regAt = [ c \in Callers |-> 0 ]

\* the pull whose result the current entry of image i will broadcast
CurPull(i) == pullSeq

Register(c, i) ==
    /\ wait[c] = "" /\ reqs[c] < MaxReq
    /\ LET k == Key(i) IN
       /\ IF ~has[k]
            THEN /\ pullSeq' = pullSeq + 1
                 /\ imgOf' = Append(imgOf, i)                     \* the pull goroutine pulls the image it was started for
                 /\ pulling' = [ pulling EXCEPT ![k] = @ + 1 ]
                 /\ regAt' = [ regAt EXCEPT ![c] = pullSeq + 1 ]
            ELSE /\ UNCHANGED <<pullSeq, pulling, imgOf>>
                 /\ regAt' = [ regAt EXCEPT ![c] = IF result[k] # 0 THEN result[k] ELSE regAt[Head(inflight[k])] ]
       /\ has' = [ has EXCEPT ![k] = TRUE ]
       /\ inflight' = [ inflight EXCEPT ![k] = Append(@, c) ]
    /\ wait' = [ wait EXCEPT ![c] = i ]
    /\ reqs' = [ reqs EXCEPT ![c] = @ + 1 ]
    /\ UNCHANGED <<result, mailbox, got, asked>>

PullReturn(i) ==
    /\ pulling[i] > 0 /\ result[i] = 0
    /\ pulling' = [ pulling EXCEPT ![i] = @ - 1 ]
    /\ result' = [ result EXCEPT ![i] = regAt[Head(inflight[i])] ]
    /\ UNCHANGED <<inflight, has, pullSeq, wait, mailbox, got, reqs, regAt, imgOf, asked>>

Broadcast(i) ==
    /\ result[i] # 0
    /\ mailbox' = [ c \in Callers |-> IF c \in { inflight[i][k] : k \in DOMAIN inflight[i] } THEN Append(mailbox[c], result[i]) ELSE mailbox[c] ]
    /\ inflight' = [ inflight EXCEPT ![i] = <<>> ]
    /\ has' = [ has EXCEPT ![i] = FALSE ]
    /\ result' = [ result EXCEPT ![i] = 0 ]
    /\ UNCHANGED <<pulling, pullSeq, wait, got, reqs, regAt, imgOf, asked>>

Receive(c) ==
    /\ wait[c] # "" /\ mailbox[c] # <<>>
    /\ got' = [ got EXCEPT ![c] = Append(@, Head(mailbox[c])) ]
    /\ asked' = [ asked EXCEPT ![c] = Append(@, << wait[c], Head(mailbox[c]) >>) ]
    /\ mailbox' = [ mailbox EXCEPT ![c] = Tail(@) ]
    /\ wait' = [ wait EXCEPT ![c] = "" ]
    /\ UNCHANGED <<inflight, has, pulling, result, pullSeq, reqs, regAt, imgOf>>

Next == \/ \E c \in Callers, i \in Images : Register(c, i)
        \/ \E i \in Keys : PullReturn(i) \/ Broadcast(i)
        \/ \E c \in Callers : Receive(c)

Spec == Init /\ [][Next]_vars
FairSpec == Spec /\ \A i \in Keys : WF_vars(PullReturn(i)) /\ WF_vars(Broadcast(i))
                 /\ \A c \in Callers : WF_vars(Receive(c))

\* at most one registry pull per image in flight at a time
Inv_C20_OnePullPerImage == \A i \in Keys : pulling[i] <= 1

\* a caller never has more than one response pending, and receives exactly one response per request:
\* the result of the pull that was in flight while it was registered
Inv_C20_ExactlyOneResponse ==
    \A c \in Callers : /\ Len(mailbox[c]) <= 1
                       /\ Len(got[c]) + (IF wait[c] # "" THEN 1 ELSE 0) = reqs[c]
                       /\ (mailbox[c] # <<>> => Head(mailbox[c]) = regAt[c])

\* a request arriving after the broadcast starts a fresh pull: an entry always has a pull behind it
Inv_C20_EntryHasPull == \A i \in Keys : has[i] => (pulling[i] = 1 \/ result[i] # 0)

\* what a caller receives is the content of the image it asked for
Inv_C20_RightContent == \A c \in Callers : \A n \in DOMAIN asked[c] : imgOf[asked[c][n][2]] = asked[c][n][1]

\* no lost wake-up: every registered caller eventually returns
Live_C20_NoLostWakeup == \A c \in Callers : (wait[c] # "") ~> (wait[c] = "")

=============================================================================
