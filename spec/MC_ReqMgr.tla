---- MODULE MC_ReqMgr ----
EXTENDS ReqMgr
MCCallers == {"c1", "c2", "c3"}
MCImages == {"img1", "img2"}
====
