---- MODULE MC_ReqMgr ----
EXTENDS ReqMgr
MCCallers == {"c1", "c2", "c3"}
MCImages == {"quay.io/verif/app:v1", "quay.io/verif/app:v2"}
====
