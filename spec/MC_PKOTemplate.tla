---- MODULE MC_PKOTemplate ----
EXTENDS PKOTemplate
MCVals == {"v1", "v2"}
====
