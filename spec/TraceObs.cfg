SPECIFICATION Spec
CONSTANT TraceFile = "trace.ndjson"
CHECK_DEADLOCK FALSE
POSTCONDITION Accepted
INVARIANT Inv_C01_WriteOnlyIfPermitted
INVARIANT Inv_C01_LadderMatchesStatement
INVARIANT Inv_C01_RefusalReported
INVARIANT Inv_C01_PermittedIsDone
INVARIANT Inv_C01_AdoptNotSkipped
INVARIANT Act_C02_RevisionMonotone
INVARIANT Inv_C02_NoTakeFromNewer
INVARIANT Inv_C02_SingleController
INVARIANT Act_C02_RevisionFixed
INVARIANT Inv_C03_Gate
INVARIANT Inv_C03_FirstFailureNamed
INVARIANT Inv_C04_ReverseOrder
INVARIANT Inv_C04_FinalizerHeld
INVARIANT Inv_C04_ArchivedFalseUntilDone
INVARIANT Inv_C05_DeleteOnlyController
INVARIANT Inv_C05_StoreEnforces
INVARIANT Inv_C05_DeletedWasControlled
INVARIANT Inv_C05_CoOwned
INVARIANT Inv_C05_ForeignUntouched
INVARIANT Inv_C05_Orphan
INVARIANT Inv_C06_AvailableJustified
INVARIANT Inv_C06_ControllerOf
INVARIANT Inv_C06_SucceededWhenAvailable
INVARIANT Act_C06_SucceededSticky
INVARIANT Inv_C06_InTransition
INVARIANT Inv_C06_Archived
INVARIANT Inv_C06_ArchivedNotReconciled
INVARIANT Inv_C09_NoWritesWhilePaused
INVARIANT Inv_C09_StillReports
INVARIANT Inv_C11_PhaseAllOrNothing
INVARIANT Inv_C11_Scope
INVARIANT Inv_C11_Reported
INVARIANT Inv_C19_NoPanic
