---- MODULE MC_PKODeploy ----
EXTENDS PKODeploy
MCTmpl == {"A", "B"}
MCTmpl3 == {"A", "B", "C"}
MCObj == {"x", "y", "z"}
MCTObjs == [ t \in MCTmpl3 |-> CASE t = "A" -> {"x", "y"} [] t = "B" -> {"x", "z"} [] t = "C" -> {"z"} ]
MCTrue == TRUE
====
