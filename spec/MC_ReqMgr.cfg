SPECIFICATION FairSpec
CONSTANTS
  Callers <- MCCallers
  Images <- MCImages
  MaxReq = 2
  KeyByRepo = FALSE
INVARIANT Inv_C20_OnePullPerImage
INVARIANT Inv_C20_ExactlyOneResponse
INVARIANT Inv_C20_EntryHasPull
INVARIANT Inv_C20_RightContent
PROPERTY Live_C20_NoLostWakeup
CHECK_DEADLOCK FALSE
