--------------------------- MODULE TraceDynCache ---------------------------
(***************************************************************************)
(* Trace specification for C12: operations executed on the REAL            *)
(* dynamiccache.Cache (scripted informer map) are replayed into the        *)
(* reference model DynCache.tla (intended semantics, Rollback = "full"); the *)
(* abstract state the harness observed after each call (owner sets from    *)
(* OwnersForGKV, informers present in the map, handlers attached) must     *)
(* equal the model's and satisfy the property invariants itself.           *)
(***************************************************************************)
EXTENDS Naturals, Sequences, FiniteSets, TLC, Json

CONSTANT TraceFile

Trace == ndJsonDeserialize(TraceFile)

Range(s) == { s[i] : i \in DOMAIN s }

Owners == { Trace[i].args.owner : i \in { j \in DOMAIN Trace : Trace[j].ev = "C12Op" } } \ {""}
Kinds  == {"k1", "k2", "k3"}
Rollback == "full"
MaxFail == 0

VARIABLES l, model, obs, lw

vars == <<l, model, obs, lw>>

M == INSTANCE DynCache WITH refs <- model.refs, running <- model.running, attached <- model.attached, fails <- 0,
                            last <- [ op |-> "", kind |-> "", owner |-> "", result |-> "", wasOwned |-> FALSE ]

Empty == [ refs |-> [ k \in Kinds |-> {} ], running |-> {}, attached |-> {} ]

Init == /\ l = 1 /\ model = Empty /\ obs = Empty /\ lw = [ valid |-> FALSE, e |-> Trace[1], expect |-> "ok", wasOwned |-> FALSE ]

E == Trace[l]

ObsOf(st) == [ refs |-> [ k \in Kinds |-> Range(st.refs[k]) ], running |-> Range(st.running), attached |-> Range(st.attached) ]

TrReset == /\ l <= Len(Trace) /\ E.ev = "Reset"
           /\ model' = Empty /\ obs' = Empty
           /\ lw' = [ valid |-> FALSE, e |-> E, expect |-> "ok", wasOwned |-> FALSE ] /\ l' = l + 1

Step(e) ==
    CASE e.args.op = "Watch" -> M!WatchF(model, e.args.owner, e.args.kind, e.args.fail)
      [] e.args.op = "Free"  -> M!FreeF(model, e.args.owner)
      [] e.args.op \in {"Get", "List"} -> M!ReadF(model, e.args.kind, e.args.fail)
      [] OTHER -> [ st |-> model, result |-> "ok" ]

TrOp == /\ l <= Len(Trace) /\ E.ev = "C12Op"
        /\ LET r == Step(E) IN
           /\ model' = r.st
           /\ lw' = [ valid |-> TRUE, e |-> E, expect |-> r.result,
                      wasOwned |-> IF E.args.kind \in Kinds THEN obs.refs[E.args.kind] # {} ELSE FALSE ]
        /\ obs' = ObsOf(E.args.state)
        /\ l' = l + 1

\* concurrent stress: only the state after all callers have returned is known
TrQuiescent == /\ l <= Len(Trace) /\ E.ev = "C12Quiescent"
               /\ obs' = ObsOf(E.args.state) /\ model' = ObsOf(E.args.state)
               /\ lw' = [ valid |-> FALSE, e |-> E, expect |-> "ok", wasOwned |-> FALSE ] /\ l' = l + 1

Next == TrReset \/ TrOp \/ TrQuiescent

Spec == Init /\ [][Next]_vars

Accepted == TLCGet("stats").diameter - 1 = Len(Trace)
Alias == [ l |-> l, event |-> lw.e.i ]

\* ---- property invariants, on the state OBSERVED on the real cache ----

Inv_C12_InformerIffOwned == obs.running = { k \in Kinds : obs.refs[k] # {} }

Inv_C12_HandlersAttached == obs.running \subseteq obs.attached

Inv_C12_ReadUnwatchedFails ==
    (lw.valid /\ lw.e.args.op \in {"Get", "List"} /\ ~lw.wasOwned) => lw.e.args.result = "NotStarted"

\* watching is idempotent, freeing drops all and only that owner's watches, results agree:
\* the observed state and result equal those of the sequential reference model
Inv_C12_MatchesReferenceModel ==
    lw.valid => (obs = model /\ lw.e.args.result = lw.expect)

=============================================================================
