---------------------------- MODULE TraceShapes ----------------------------
(* Trace specification for C19: every shape class of Shapes.tla run through its real entry point. *)
EXTENDS Shapes, TLC, Json

CONSTANT TraceFile
Trace == ndJsonDeserialize(TraceFile)

VARIABLES l, lw, seen
vars == <<l, lw, seen>>
Init == l = 1 /\ lw = [ valid |-> FALSE, e |-> Trace[1] ] /\ seen = {}
Next == /\ l <= Len(Trace)
        /\ lw' = [ valid |-> Trace[l].ev \in {"C19Row", "Panic", "Timeout"}, e |-> Trace[l] ]
        /\ seen' = IF Trace[l].ev = "C19Row" THEN seen \cup { <<Trace[l].args.entry, Trace[l].args.shape>> } ELSE seen
        /\ l' = l + 1
Spec == Init /\ [][Next]_vars
Accepted == TLCGet("stats").diameter - 1 = Len(Trace)
Alias == [ l |-> l, event |-> lw.e.i ]

\* no input shape crashes or hangs package-operator
Inv_C19_NoPanic == lw.valid => (lw.e.ev = "C19Row" /\ lw.e.args.outcome \in {"ok", "error"})

\* only declared shape classes are run, and at the end of the trace all of them have been run
Inv_C19_DomainCovered ==
    /\ seen \subseteq Rows
    /\ (l > Len(Trace)) => seen = Rows
=============================================================================
