----------------------------- MODULE PKOTemplate -----------------------------
(***************************************************************************)
(* Design model of the ObjectTemplate controller                           *)
(* (internal/controllers/objecttemplate/template_reconciler.go,            *)
(* objecttemplate_controller.go, internal/dynamiccache/enqueue_watching.go)*)
(*                                                                         *)
(* A template t renders one target object from a required source A and an  *)
(* optional source B.  One action per step of a pass that matters for the  *)
(* property: for each source Watch (registers t as watcher of the kind)    *)
(* and read (dynamic cache, then uncached + label patch), then render,     *)
(* Watch target, read target, Create / Update.  Reconciles are TRIGGERED:  *)
(* a pass runs only if t is in the work queue; events of watched kinds     *)
(* enqueue t (EnqueueWatchingObjects), a missing required source and a     *)
(* missing optional source arm retry timers, t's own changes enqueue it.   *)
(*                                                                         *)
(* Properties (C18): at rest - queue empty, no pass in flight - the target *)
(* is the render of the CURRENT sources; a missing required source means   *)
(* Invalid and no write; deleting t frees its watches.  Liveness: under    *)
(* fairness the system always gets to rest with the target up to date.     *)
(*                                                                         *)
(* Variants (negative controls of seeded changes that the trace checks     *)
(* caught): WatchBeforeRead = FALSE registers the watch only when the read *)
(* finds the kind unwatched (another template already watches it: t is     *)
(* never woken); TimerOptional = FALSE forgets the retry timer of a        *)
(* missing optional source.                                                *)
(*                                                                         *)
(* Environment: the render also takes the environment of the template's    *)
(* namespace (HyperShift: the hosted cluster of that namespace; t's        *)
(* namespace hosts none).  The controller keeps the probed environment in  *)
(* a sink shared by all its templates; a neighbour template in a hosted    *)
(* cluster's namespace is reconciled by the same controller                *)
(* (internal/environment/environment.go, Sink.GetEnvironment).  CopyEnv =  *)
(* TRUE: every pass works on its own deep copy.  CopyEnv = FALSE (a seeded *)
(* change the trace checks caught): the neighbour's pass writes its hosted *)
(* cluster into the shared sink and t renders with it until the next probe.*)
(***************************************************************************)
EXTENDS Integers, FiniteSets, TLC

CONSTANTS Vals, WatchBeforeRead, TimerOptional, OtherWatcher, CopyEnv, MaxEdit, MaxCrash

VARIABLES src,     \* [A, B] -> value or "-" (absent)
          lab,     \* [A, B] -> the source object carries the dynamic-cache label (only labelled objects produce events:
                   \*   the informers are label-filtered; the controller labels a source when it first reads it)
          tgt,     \* rendered <<a, b>> or "-" (absent); b = "unset" when B is absent
          tmpl,    \* [ex, invalid, deleting]
          watch,   \* kinds (sources' kind "S", target kind "T") for which t is a registered watcher
          started, \* kinds with a running informer (somebody watches them)
          queue,   \* t is in the work queue
          timer,   \* a RequeueAfter timer is armed
          sink,    \* hosted cluster recorded in the controller's environment sink ("none" as probed)
          pc, bud
vars == <<src, lab, tgt, tmpl, watch, started, queue, timer, sink, pc, bud>>

Idle == [ st |-> "idle" ]
Render(a, b, h) == << a, IF b = "-" THEN "unset" ELSE b, h >>
NoTgt == << "-", "-", "-" >>          \* the target object does not exist
\* the environment a pass of t gets: t's namespace hosts no cluster
EnvOfT == IF CopyEnv THEN "none" ELSE sink

Init == /\ src = [ A |-> "-", B |-> "-" ] /\ lab = [ A |-> FALSE, B |-> FALSE ] /\ tgt = NoTgt
        /\ tmpl = [ ex |-> TRUE, invalid |-> FALSE, deleting |-> FALSE ]
        /\ watch = {} /\ started = IF OtherWatcher THEN {"S"} ELSE {}
        /\ queue = TRUE /\ timer = FALSE /\ pc = Idle /\ sink = "none"
        /\ bud = [ edit |-> 0, crash |-> 0 ]

\* an event on an object of kind k reaches t iff t is a registered watcher of k (and the informer runs)
Notify(k) == IF k \in watch /\ k \in started THEN TRUE ELSE queue

\* ---------------- a pass ----------------
Begin ==
    /\ pc.st = "idle" /\ queue /\ tmpl.ex
    /\ queue' = FALSE /\ timer' = FALSE
    /\ pc' = IF tmpl.deleting THEN [ st |-> "free" ] ELSE [ st |-> "srcA", a |-> "-", b |-> "-", retry |-> FALSE ]
    /\ UNCHANGED <<src, lab, tgt, tmpl, watch, started, bud, sink>>

\* Watch + read of a source: with WatchBeforeRead the watcher is registered unconditionally; the seeded variant
\* registers only when the read reports the kind as not started
ReadSource(name) ==
    /\ LET reg == WatchBeforeRead \/ "S" \notin started IN
       /\ watch' = IF reg THEN watch \cup {"S"} ELSE watch
       /\ started' = IF reg THEN started \cup {"S"} ELSE started
    \* a source found outside the cache gets the label (a write: an event of a kind t may be watching)
    /\ lab' = IF src[name] # "-" THEN [ lab EXCEPT ![name] = TRUE ] ELSE lab
    /\ queue' = IF src[name] # "-" /\ ~lab[name] /\ "S" \in watch' /\ "S" \in started' THEN TRUE ELSE queue
    /\ UNCHANGED <<src, tgt, bud, sink>>

SrcA ==
    /\ pc.st = "srcA" /\ ReadSource("A")
    /\ IF src.A = "-"
         THEN \* missing required source: Invalid, retry timer, nothing written
              /\ tmpl' = [ tmpl EXCEPT !.invalid = TRUE ] /\ timer' = TRUE /\ pc' = Idle
         ELSE /\ pc' = [ pc EXCEPT !.st = "srcB", !.a = src.A ] /\ UNCHANGED <<tmpl, timer>>

SrcB ==
    /\ pc.st = "srcB" /\ ReadSource("B")
    /\ pc' = [ pc EXCEPT !.st = "target", !.b = src.B, !.retry = (src.B = "-") ]
    /\ UNCHANGED <<tmpl, timer>>

\* render, Watch target kind, read target, Create or Update; arm the optional-source timer; status
Target ==
    /\ pc.st = "target"
    /\ watch' = watch \cup {"T"} /\ started' = started \cup {"T"}
    /\ tgt' = Render(pc.a, pc.b, EnvOfT)
    /\ tmpl' = [ tmpl EXCEPT !.invalid = FALSE ]
    /\ timer' = (pc.retry /\ TimerOptional)
    \* the write to the target is an event of a kind t watches, and the status write is t's own change
    /\ queue' = (tgt # Render(pc.a, pc.b, EnvOfT) \/ tmpl.invalid \/ queue)
    /\ pc' = Idle
    /\ UNCHANGED <<src, lab, bud, sink>>

\* deletion: free the watches, remove the finalizer
Free ==
    /\ pc.st = "free"
    /\ watch' = {} /\ started' = (IF OtherWatcher THEN {"S"} ELSE {})
    /\ tmpl' = [ tmpl EXCEPT !.ex = FALSE ] /\ pc' = Idle
    /\ UNCHANGED <<src, lab, tgt, queue, timer, bud, sink>>

TimerFires == /\ timer /\ timer' = FALSE /\ queue' = TRUE /\ UNCHANGED <<src, lab, tgt, tmpl, watch, started, pc, bud, sink>>

Crash == /\ bud.crash < MaxCrash
         \* restart: in-memory state is gone (pass, watches, timers); every object is reconciled once
         /\ pc' = Idle /\ watch' = {} /\ started' = (IF OtherWatcher THEN {"S"} ELSE {}) /\ timer' = FALSE /\ queue' = TRUE
         /\ sink' = "none"          \* the environment is probed afresh
         /\ bud' = [ bud EXCEPT !.crash = @ + 1 ] /\ UNCHANGED <<src, lab, tgt, tmpl>>

PassNext == Begin \/ SrcA \/ SrcB \/ Target \/ Free \/ TimerFires

\* ---------------- environment ----------------
EditSource(name, v) ==
    /\ bud.edit < MaxEdit /\ src[name] # v
    /\ src' = [ src EXCEPT ![name] = v ]
    \* created by a user: no label, invisible to the informer; edits and deletes of a labelled object are seen
    /\ lab' = IF src[name] = "-" \/ v = "-" THEN [ lab EXCEPT ![name] = FALSE ] ELSE lab
    /\ queue' = IF lab[name] THEN Notify("S") ELSE queue
    /\ bud' = [ bud EXCEPT !.edit = @ + 1 ] /\ UNCHANGED <<tgt, tmpl, watch, started, timer, pc, sink>>
TamperTarget ==
    /\ bud.edit < MaxEdit /\ tgt # NoTgt
    /\ tgt' = NoTgt /\ queue' = Notify("T")
    /\ bud' = [ bud EXCEPT !.edit = @ + 1 ] /\ UNCHANGED <<src, lab, tmpl, watch, started, timer, pc, sink>>
DeleteTemplate ==
    /\ bud.edit < MaxEdit /\ tmpl.ex /\ ~tmpl.deleting
    /\ tmpl' = [ tmpl EXCEPT !.deleting = TRUE ] /\ queue' = TRUE
    /\ bud' = [ bud EXCEPT !.edit = @ + 1 ] /\ UNCHANGED <<src, lab, tgt, watch, started, timer, pc, sink>>
\* the neighbour template in the hosted cluster's namespace is reconciled (same controller, same sink): with its own
\* copy of the environment nothing is left behind; without, the sink keeps the neighbour's hosted cluster
NeighbourPass ==
    /\ bud.edit < MaxEdit
    /\ sink' = IF CopyEnv THEN sink ELSE "one"
    /\ bud' = [ bud EXCEPT !.edit = @ + 1 ] /\ UNCHANGED <<src, lab, tgt, tmpl, watch, started, queue, timer, pc>>
\* the environment manager's periodic probe replaces the sink's content (no reconcile is triggered by it)
ProbeEnv == /\ sink # "none" /\ sink' = "none" /\ UNCHANGED <<src, lab, tgt, tmpl, watch, started, queue, timer, pc, bud>>

EnvNext == (\E n \in {"A", "B"}, v \in Vals \cup {"-"} : EditSource(n, v)) \/ TamperTarget \/ DeleteTemplate \/ Crash
           \/ NeighbourPass \/ ProbeEnv
Next == PassNext \/ EnvNext
Spec == Init /\ [][Next]_vars
FairSpec == Spec /\ WF_vars(PassNext)

-----------------------------------------------------------------------------
TypeOK == pc.st \in {"idle", "srcA", "srcB", "target", "free"}
AtRest == pc.st = "idle" /\ ~queue /\ ~timer /\ tmpl.ex /\ ~tmpl.deleting

\* C18: at rest the target is the render of the current sources (a missing required source: Invalid instead)
Inv_C18_OutputIsRender ==
    AtRest => IF src.A = "-" THEN tmpl.invalid ELSE (tgt = Render(src.A, src.B, "none") /\ ~tmpl.invalid)
\* C18: a deleted template holds no watch
Inv_C18_Freed == ~tmpl.ex => watch = {}
\* liveness: once edits stop the system gets to rest (timers of a missing source keep it from resting, by design)
Quiet == bud.edit = MaxEdit /\ bud.crash = MaxCrash
Live_C18_Tracks ==
    <>[]((Quiet /\ tmpl.ex /\ ~tmpl.deleting /\ src.A # "-") => (pc.st = "idle" => tgt = Render(src.A, src.B, "none")) \/ queue \/ timer)
Live_C18_EventuallyCurrent ==
    [](Quiet /\ tmpl.ex /\ ~tmpl.deleting /\ src.A # "-" /\ src.B # "-" => <>(tgt = Render(src.A, src.B, "none")))
=============================================================================
