------------------------------- MODULE MC_PKO -------------------------------
(* Bounded instances of the design model PKO.tla. *)
EXTENDS PKO

MCSets == {"a1", "a2"}
MCObjs == {"x", "y", "z"}
\* a1 -> a2 handover: x shared (probed Widget) in phase 1; y only in a1, z only in a2 (phase 2)
MCPhases == [ a1 |-> << <<"x">>, <<"y">> >>, a2 |-> << <<"x">>, <<"z">> >> ]
MCPrev == [ a1 |-> <<>>, a2 |-> <<"a1">> ]
MCCP == [ x |-> "Prevent", y |-> "Prevent", z |-> "IfNoController" ]
MCProbed == {"x"}
MCInit == {"a1"}

\* hide the ghost variable and the uid counter
View == <<obj, cr, pc, dyn, budget>>
=============================================================================
