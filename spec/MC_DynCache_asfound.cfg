SPECIFICATION Spec
CONSTANTS
  Owners <- MCOwners
  Kinds <- MCKinds
  Rollback = "none"
  MaxFail = 2
INVARIANT Inv_C12_InformerIffOwned
INVARIANT Inv_C12_HandlersAttached
INVARIANT Inv_C12_ReadUnwatchedFails
CHECK_DEADLOCK FALSE
