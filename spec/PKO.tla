--------------------------------- MODULE PKO ---------------------------------
(***************************************************************************)
(* Design model of package-operator's ObjectSet controller, written to be  *)
(* bound to the code: ONE ACTION PER API CALL of a reconcile pass (the     *)
(* linearisation points), guards and branch order as in                    *)
(*   internal/controllers/objectsets/objectset_controller.go               *)
(*   internal/controllers/objectsets/objectsetphases_reconciler.go         *)
(*   internal/controllers/objectsets/revision_reconciler.go                *)
(*   internal/controllers/phase_reconciler.go                              *)
(* plus the API server (Store semantics: resourceVersion conflicts,        *)
(* preconditioned delete, finalizers, server-side apply with one field     *)
(* manager) and the environment (third party, workload controller, user,   *)
(* operator crash).                                                        *)
(*                                                                         *)
(* TLC checks the property invariants on every reachable state for small   *)
(* constants (MC_PKO*.cfg).  The harness replays TLC-generated behaviours  *)
(* of THIS module into the real controller, action by action, and compares *)
(* the abstract state after each step (bin/check ... spec-guided replay).  *)
(***************************************************************************)
EXTENDS PKOCore, Integers, TLC

CONSTANTS
    Sets,        \* ObjectSet names, e.g. {"a1","a2"}
    Objs,        \* managed object names
    Phases,      \* [Sets -> Seq(Seq(Objs))]   phases of each set, in order
    PrevSeq,     \* [Sets -> Seq(Sets)]        spec.previous
    CP,          \* [Objs -> {"Prevent","IfNoController","None"}]
    Probed,      \* SUBSET Objs: objects selected by the availability probe (Widgets)
    InitSets,    \* sets that exist initially
    EnvBudget,   \* number of disturbing third-party / user actions
    WorkBudget,  \* number of workload status changes
    CrashBudget, \* number of operator restarts
    MaxVer       \* state constraint: bound on resource versions

VARIABLES
    obj,     \* [Objs -> managed object]
    cr,      \* [Sets -> ObjectSet]
    pc,      \* the (single) ObjectSet controller worker: in-flight pass or idle
    dyn,     \* dynamic cache references: set of <<set, obj kind>>  — kinds are per object here
    budget,  \* [env, work, crash]
    lastw,   \* ghost: the write performed by the last step (for action-style invariants)
    uidc     \* next incarnation number

vars == <<obj, cr, pc, dyn, budget, lastw, uidc>>

OID(s) == s                      \* owner ids are set names; "foreign" is the third party
NoObj == [ exists |-> FALSE, inc |-> 0, ver |-> 0, owners |-> <<>>, rev |-> 0, cache |-> FALSE, probe |-> "None",
           content |-> "", hold |-> FALSE, deleting |-> FALSE, appl |-> {} ]

NoCR == [ exists |-> FALSE, inc |-> 0, ver |-> 0, gen |-> 0, life |-> "Active", deleting |-> FALSE, fin |-> FALSE, orphan |-> FALSE,
          revision |-> 0, avail |-> "none", availCur |-> FALSE, succeeded |-> FALSE, inTransition |-> FALSE,
          paused |-> FALSE, archived |-> "none", cof |-> {},
          msg |-> <<>> ]   \* abstract content of the Available condition's message (failed phase + failing objects / refusal)

Idle == [ st |-> "idle" ]

NoW == [ valid |-> FALSE ]

Init ==
    /\ obj = [ o \in Objs |-> NoObj ]
    /\ cr = [ s \in Sets |-> IF s \in InitSets THEN [ NoCR EXCEPT !.exists = TRUE, !.inc = 1, !.ver = 1, !.gen = 1 ] ELSE NoCR ]
    /\ pc = Idle
    /\ dyn = {}
    /\ budget = [ env |-> EnvBudget, work |-> WorkBudget, crash |-> CrashBudget ]
    /\ lastw = NoW
    /\ uidc = 2

(* ------------------------------------------------------------------ *)
(* ownership on the model's objects: owners are [id, inc, ctrl]          *)

OwnerRec(s)  == [ id |-> s, uid |-> cr[s].inc, ctrl |-> TRUE ]
MIsCtrl(s, sinc, o) == o.exists /\ IsControllerL(s, sinc, o.owners)
MIsOwner(s, sinc, o) == o.exists /\ IsOwnerL(s, sinc, o.owners)

\* the object in the shape PKOCore!Adopt expects
AsCore(o) == [ exists |-> o.exists, owners |-> o.owners, aowners |-> <<>>, rev |-> o.rev, pkoLabel |-> FALSE ]

AllObjs(s) == UNION { Range(Phases[s][j]) : j \in DOMAIN Phases[s] }
PhaseOfM(s, o) == CHOOSE j \in DOMAIN Phases[s] : o \in Range(Phases[s][j])

MPasses(name, o) == o.exists /\ (name \in Probed => o.probe = "Ready")

(* ------------------------------------------------------------------ *)
(* API server operations on managed objects (pure)                       *)

Bump(o) == [ o EXCEPT !.ver = @ + 1 ]

\* server-side apply by field manager package-operator of desired content of set s with owner list L.
\* ownerReferences is a map-list: applied entries overwrite, entries applied before and not applied now are removed.
MergeOwners(cur, L, appl) ==
    LET Lk == { <<L[i].id, L[i].uid>> : i \in DOMAIN L }
        kept == SelectSeq(cur, LAMBDA e : ~(<<e.id, e.uid>> \in appl /\ <<e.id, e.uid>> \notin Lk))
        upd == [ i \in DOMAIN kept |->
                   IF <<kept[i].id, kept[i].uid>> \in Lk
                     THEN L[CHOOSE j \in DOMAIN L : L[j].id = kept[i].id /\ L[j].uid = kept[i].uid]
                     ELSE kept[i] ]
        new == SelectSeq(L, LAMBDA e : ~(\E i \in DOMAIN kept : kept[i].id = e.id /\ kept[i].uid = e.uid))
    IN upd \o new

ApplyOn(o, s, rev, L, newInc) ==
    IF ~o.exists
      THEN [ NoObj EXCEPT !.exists = TRUE, !.inc = newInc, !.ver = 1, !.owners = L, !.rev = rev, !.cache = TRUE,
                          !.content = s, !.appl = { <<L[i].id, L[i].uid>> : i \in DOMAIN L } ]
      ELSE LET n == [ o EXCEPT !.owners = MergeOwners(o.owners, L, o.appl), !.rev = rev, !.cache = TRUE, !.content = s,
                               \* a spec change bumps metadata.generation: a reported status is now outdated
                               !.probe = IF o.content # s /\ @ # "None" THEN "Stale" ELSE @,
                               !.appl = { <<L[i].id, L[i].uid>> : i \in DOMAIN L } ]
           IN IF [ n EXCEPT !.appl = o.appl ] = o THEN n ELSE Bump(n)      \* no-op writes do not bump the version

(* ------------------------------------------------------------------ *)
(* helpers on the pass record                                            *)

S == pc.s
Snap == pc.snap
NPh == Len(Phases[S])
CurObj == Phases[S][pc.j][pc.i]

\* resourceVersion precondition of writes to the reconciled set: the snapshot must still be the stored version
\* (resourceVersions are unique across incarnations, so a re-created set never matches)
StaleSnap == ~cr[S].exists \/ cr[S].ver # Snap.ver \/ cr[S].inc # Snap.inc

SetPC(r) == pc' = r
Goto(st) == pc' = [ pc EXCEPT !.st = st ]

W(actor, verb, key, pre, post, extra) ==
    lastw' = [ valid |-> TRUE, actor |-> actor, verb |-> verb, key |-> key, pre |-> pre, post |-> post, x |-> extra,
               pass |-> pc ]

NoWrite == lastw' = NoW

EndPass == pc' = Idle

(* The status the pass will write: computed in memory from what it observed *)
InTransitionM(s, cof) == ~(AllObjs(s) \subseteq cof)

(* ------------------------------------------------------------------ *)
(* ObjectSet controller — one action per API call                        *)

OS_Begin(s) ==
    /\ pc.st = "idle" /\ cr[s].exists
    /\ pc' = [ st |-> "Get", s |-> s ]
    /\ NoWrite /\ UNCHANGED <<obj, cr, dyn, budget, uidc>>

\* where a rollout pass continues once the previous revisions are known / not needed
AfterPrev(p) == IF PrevSeq[p.s] = <<>> THEN [ p EXCEPT !.st = "Dry", !.j = 1, !.i = 1 ]
                ELSE [ p EXCEPT !.st = "PrevLookup", !.k = 1 ]

\* revisionReconciler, in memory: decides whether previous revisions must be read to compute status.revision
AfterFin(p) ==
    IF p.snap.revision # 0 THEN AfterPrev(p)
    ELSE IF PrevSeq[p.s] = <<>> THEN AfterPrev([ p EXCEPT !.snap.revision = 1, !.orev = 1 ])
    ELSE [ p EXCEPT !.st = "RevGet", !.k = 1, !.maxrev = 0 ]

\* Get ObjectSet (manager cache, modelled consistent)
OS_Get ==
    /\ pc.st = "Get"
    /\ LET c == cr[S] IN
       IF ~c.exists \/ c.archived = "True"
         THEN EndPass
       ELSE LET base == [ st |-> "", s |-> S, snap |-> c, orev |-> c.revision, j |-> 1, i |-> 1, k |-> 1, maxrev |-> 0,
                          prev |-> {}, read |-> NoObj, cof |-> {}, failed |-> 0, seen |-> {}, okobjs |-> {},
                          fails |-> <<>>, done |-> TRUE, tdread |-> [ o \in Objs |-> NoObj ], gone |-> {}, err |-> "", requeue |-> FALSE ] IN
            IF c.deleting \/ c.life = "Archived"
              THEN IF ~c.fin THEN pc' = [ base EXCEPT !.st = "Free" ]              \* no finalizer: nothing to tear down
                   ELSE IF c.orphan THEN pc' = [ base EXCEPT !.st = "Free" ]       \* orphan: done at once
                   ELSE pc' = [ base EXCEPT !.st = "TDDry", !.j = Len(Phases[S]), !.i = 1 ]
            ELSE IF ~c.fin THEN pc' = [ base EXCEPT !.st = "AddFin" ]
            ELSE pc' = AfterFin(base)
    /\ NoWrite /\ UNCHANGED <<obj, cr, dyn, budget, uidc>>

\* MergePatch {resourceVersion, finalizers}
OS_AddFin ==
    /\ pc.st = "AddFin"
    /\ IF StaleSnap
         THEN /\ EndPass /\ UNCHANGED cr /\ W("os", "MergePatch", S, cr[S], cr[S], "Conflict")
         ELSE LET n == [ cr[S] EXCEPT !.fin = TRUE, !.ver = @ + 1 ] IN
              /\ cr' = [ cr EXCEPT ![S] = n ]
              /\ pc' = AfterFin([ pc EXCEPT !.snap = n ])
              /\ W("os", "MergePatch", S, cr[S], n, "ok")
    /\ UNCHANGED <<obj, dyn, budget, uidc>>

\* Get previous ObjectSet k to learn its revision
OS_RevGet ==
    /\ pc.st = "RevGet"
    /\ LET p == PrevSeq[S][pc.k] IN
       IF ~cr[p].exists THEN EndPass                                   \* error: getting previous revision
       ELSE IF cr[p].revision = 0
         THEN pc' = [ pc EXCEPT !.st = "Status", !.requeue = TRUE ]   \* wait; res non-zero skips the other reconcilers
       ELSE LET m == IF cr[p].revision > pc.maxrev THEN cr[p].revision ELSE pc.maxrev IN
            IF pc.k < Len(PrevSeq[S]) THEN pc' = [ pc EXCEPT !.k = @ + 1, !.maxrev = m ]
            ELSE pc' = [ pc EXCEPT !.st = "RevStatus", !.maxrev = m, !.snap.revision = m + 1, !.orev = m + 1 ]
    /\ NoWrite /\ UNCHANGED <<obj, cr, dyn, budget, uidc>>

\* Status().Update carrying the new revision
OS_RevStatus ==
    /\ pc.st = "RevStatus"
    /\ IF StaleSnap
         THEN /\ EndPass /\ UNCHANGED cr /\ W("os", "StatusUpdate", S, cr[S], cr[S], "Conflict")
         ELSE LET n == [ cr[S] EXCEPT !.revision = Snap.revision, !.ver = @ + 1 ] IN
              /\ cr' = [ cr EXCEPT ![S] = n ]
              /\ pc' = AfterPrev([ pc EXCEPT !.snap = [ Snap EXCEPT !.ver = n.ver ] ])
              /\ W("os", "StatusUpdate", S, cr[S], n, "ok")
    /\ UNCHANGED <<obj, dyn, budget, uidc>>

\* previous revision lookup (NotFound tolerated): one Get per previous
OS_PrevLookup ==
    /\ pc.st = "PrevLookup"
    /\ LET p == PrevSeq[S][pc.k]
           pr == IF cr[p].exists THEN pc.prev \cup { [ id |-> p, uid |-> cr[p].inc, remote |-> <<>> ] } ELSE pc.prev IN
       IF pc.k < Len(PrevSeq[S]) THEN pc' = [ pc EXCEPT !.k = @ + 1, !.prev = pr ]
       ELSE pc' = [ pc EXCEPT !.st = "Dry", !.j = 1, !.i = 1, !.prev = pr ]
    /\ NoWrite /\ UNCHANGED <<obj, cr, dyn, budget, uidc>>

\* preflight: server-side dry run of every object of the phase, before any object of the phase is touched
\* Variant (FALSE = the code; overridden by a negative control): a dry-run apply answered with 409 Conflict is retried
\* without the dry-run option - a REAL forced apply of the desired object (own revision, no owner references) that no
\* adoption check has seen (seeded change C02 round 4; the 409 is charged to the env budget).
DryConflictApplies == FALSE

OS_Dry ==
    /\ pc.st = "Dry"
    /\ IF pc.i < Len(Phases[S][pc.j]) THEN pc' = [ pc EXCEPT !.i = @ + 1 ]
       ELSE pc' = [ pc EXCEPT !.st = "Watch", !.i = 1 ]
    /\ \/ NoWrite /\ UNCHANGED <<obj, cr, dyn, budget, uidc>>
       \/ /\ DryConflictApplies /\ budget.env > 0 /\ obj[CurObj].exists
          /\ LET o == obj[CurObj]
                 n == ApplyOn(o, S, pc.orev, <<>>, uidc) IN
             /\ obj' = [ obj EXCEPT ![CurObj] = n ]
             /\ W("os", "ApplyPatch", CurObj, o, n, "dryretry")
          /\ budget' = [ budget EXCEPT !.env = @ - 1 ]
          /\ UNCHANGED <<cr, dyn, uidc>>

OS_Watch ==
    /\ pc.st = "Watch"
    /\ dyn' = dyn \cup { <<S, CurObj>> }
    /\ Goto("DynGet")
    /\ NoWrite /\ UNCHANGED <<obj, cr, budget, uidc>>

\* after object i of phase j has been handled (o = what the pass holds as "actual object", or absent)
AfterObject(p, present, o) ==
    LET name == Phases[p.s][p.j][p.i]
        ctrl == present /\ MIsCtrl(p.s, p.snap.inc, o)
        ok   == present /\ MPasses(name, o)
        p1 == [ p EXCEPT !.cof = IF ctrl THEN @ \cup {name} ELSE @,
                         !.seen = @ \cup {name},
                         !.okobjs = IF ok THEN @ \cup {name} ELSE @,
                         !.fails = IF ok THEN @ ELSE Append(@, <<name, IF present THEN o.probe ELSE "absent">>),
                         !.failed = IF ~ok /\ @ = 0 THEN p.j ELSE @ ]
    IN IF p.i < Len(Phases[p.s][p.j]) THEN [ p1 EXCEPT !.st = "Watch", !.i = @ + 1 ]
       ELSE IF p1.failed # 0 \/ p.j = Len(Phases[p.s]) THEN [ p1 EXCEPT !.st = "Status" ]
       ELSE [ p1 EXCEPT !.st = "Dry", !.j = @ + 1, !.i = 1 ]

Visible(o) == o.exists /\ o.cache          \* what the label-filtered dynamic cache shows

\* in memory after reading an existing object: the adoption ladder decides the next call
Decide(p, name, o) ==
    LET v == Adopt("native", p.s, p.snap.inc, p.orev, AsCore(o), p.prev, CP[name], FALSE) IN
    IF IsRefusal(v) THEN [ p EXCEPT !.st = "ErrStatus", !.err = "CollisionDetected", !.read = o, !.fails = <<v, name>> ]
    ELSE IF v \in {"Adopt", "AlreadyOwner"} THEN [ p EXCEPT !.st = "Patch", !.read = o ]
    ELSE AfterObject([ p EXCEPT !.read = o ], TRUE, o)                   \* SkipNewer: no write, observe what was read

\* dynamic cache Get
OS_DynGet ==
    /\ pc.st = "DynGet"
    /\ LET o == obj[CurObj] IN
       IF Snap.life = "Paused"
         THEN pc' = AfterObject(pc, Visible(o), o)                        \* paused: observe only
       ELSE IF Visible(o) THEN pc' = Decide(pc, CurObj, o)
       ELSE Goto("UncGet")
    /\ NoWrite /\ UNCHANGED <<obj, cr, dyn, budget, uidc>>

\* uncached Get after a cache miss
OS_UncGet ==
    /\ pc.st = "UncGet"
    /\ LET o == obj[CurObj] IN
       IF o.exists THEN pc' = Decide(pc, CurObj, o)
       ELSE Goto("Create")
    /\ NoWrite /\ UNCHANGED <<obj, cr, dyn, budget, uidc>>

\* Patch(Apply) of the desired object: creates it
OS_Create ==
    /\ pc.st = "Create"
    /\ LET o == obj[CurObj]
           n == ApplyOn(o, S, pc.orev, << [ id |-> S, uid |-> Snap.inc, ctrl |-> TRUE ] >>, uidc) IN
       IF NumControllers(n.owners) > 1
         THEN \* somebody created the object with its own controller reference since the pass found it absent: the apply
              \* would give it two controllers, the API server answers Invalid (apimachinery ValidateOwnerReferences)
              /\ EndPass /\ UNCHANGED <<obj, uidc>> /\ W("os", "ApplyPatch", CurObj, o, o, "Invalid")
         ELSE /\ obj' = [ obj EXCEPT ![CurObj] = n ]
              /\ uidc' = IF o.exists THEN uidc ELSE uidc + 1
              /\ pc' = AfterObject(pc, TRUE, n)
              /\ W("os", "ApplyPatch", CurObj, o, n, "create")
    /\ UNCHANGED <<cr, dyn, budget>>

\* Patch(Apply, force) carrying the owner list of the object as read, former controllers demoted
OS_Patch ==
    /\ pc.st = "Patch"
    /\ LET r == pc.read
           L == AfterAdoptNative(S, Snap.inc, r.owners)
           o == obj[CurObj] IN
       IF o.exists /\ o.inc # r.inc
         THEN /\ EndPass /\ UNCHANGED <<obj, uidc>> /\ W("os", "ApplyPatch", CurObj, o, o, "Conflict")   \* uid mismatch
         ELSE LET n == ApplyOn(o, S, pc.orev, L, uidc) IN
              IF NumControllers(n.owners) > 1
                THEN \* apimachinery ValidateOwnerReferences: only one controller reference allowed -> Invalid
                     /\ EndPass /\ UNCHANGED <<obj, uidc>> /\ W("os", "ApplyPatch", CurObj, o, o, "Invalid")
                ELSE /\ obj' = [ obj EXCEPT ![CurObj] = n ]
                     /\ uidc' = IF o.exists THEN uidc ELSE uidc + 1
                     /\ pc' = AfterObject(pc, TRUE, n)
                     /\ W("os", "ApplyPatch", CurObj, o, n, "patch")
    /\ UNCHANGED <<cr, dyn, budget>>

\* final Status().Update of a rollout pass
StatusOf(p, c) ==
    LET allok == p.failed = 0 /\ ~p.requeue
        intr  == InTransitionM(p.s, p.cof) IN
    IF p.requeue THEN [ c EXCEPT !.paused = (p.snap.life = "Paused") ]   \* waiting for previous revisions: only the Paused condition
    ELSE [ c EXCEPT !.revision = p.snap.revision,
                    !.cof = p.cof,
                    !.inTransition = intr,
                    !.avail = IF allok THEN "True" ELSE "ProbeFailure",
                    !.msg = IF allok THEN <<>> ELSE <<p.failed, p.fails>>,
                    !.availCur = TRUE,
                    !.succeeded = @ \/ (allok /\ ~intr),
                    !.paused = (p.snap.life = "Paused") ]

OS_Status ==
    /\ pc.st = "Status"
    /\ IF StaleSnap
         THEN /\ EndPass /\ UNCHANGED cr /\ W("os", "StatusUpdate", S, cr[S], cr[S], "Conflict")
         ELSE LET n0 == StatusOf(pc, cr[S])
                  n == IF n0 = cr[S] THEN n0 ELSE [ n0 EXCEPT !.ver = @ + 1 ] IN
              /\ cr' = [ cr EXCEPT ![S] = n ]
              /\ EndPass
              /\ W("os", "StatusUpdate", S, cr[S], n, "ok")
    /\ UNCHANGED <<obj, dyn, budget, uidc>>

\* adoption refused: Available=False/CollisionDetected with the status read at the start of the pass
OS_ErrStatus ==
    /\ pc.st = "ErrStatus"
    /\ IF StaleSnap
         THEN /\ EndPass /\ UNCHANGED cr /\ W("os", "StatusUpdate", S, cr[S], cr[S], "Conflict")
         ELSE LET n0 == [ cr[S] EXCEPT !.revision = Snap.revision, !.avail = pc.err, !.availCur = TRUE, !.msg = pc.fails ]
                  n == IF n0 = cr[S] THEN n0 ELSE [ n0 EXCEPT !.ver = @ + 1 ] IN
              /\ cr' = [ cr EXCEPT ![S] = n ]
              /\ EndPass
              /\ W("os", "StatusUpdate", S, cr[S], n, "ok")
    /\ UNCHANGED <<obj, dyn, budget, uidc>>

(* ---- teardown (deletion or archival): phases in reverse order ---- *)

TDObj == Phases[S][pc.j][pc.i]

\* after teardown handled object i of phase j with result `done`
AfterTD(p, isdone, name, readObj) ==
    LET p1 == [ p EXCEPT !.done = @ /\ isdone, !.gone = IF isdone THEN @ \cup {name} ELSE @,
                         !.tdread = [ @ EXCEPT ![name] = readObj ] ] IN
    IF p.i < Len(Phases[p.s][p.j]) THEN [ p1 EXCEPT !.st = "TDDry", !.i = @ + 1 ]
    ELSE IF ~p1.done THEN (IF p.snap.life = "Archived" THEN [ p1 EXCEPT !.st = "TDNotDone" ] ELSE Idle)
    ELSE IF p.j > 1 THEN [ p1 EXCEPT !.st = "TDDry", !.j = @ - 1, !.i = 1 ]
    ELSE [ p1 EXCEPT !.st = "Free" ]

OS_TDDry ==
    /\ pc.st = "TDDry"
    /\ Goto("TDWatch")
    /\ NoWrite /\ UNCHANGED <<obj, cr, dyn, budget, uidc>>

OS_TDWatch ==
    /\ pc.st = "TDWatch"
    /\ dyn' = dyn \cup { <<S, TDObj>> }
    /\ Goto("TDGet")
    /\ NoWrite /\ UNCHANGED <<obj, cr, budget, uidc>>

\* uncached Get; decides delete / owner removal / nothing
OS_TDGet ==
    /\ pc.st = "TDGet"
    /\ LET o == obj[TDObj] IN
       IF ~o.exists THEN pc' = AfterTD(pc, TRUE, TDObj, o)
       ELSE IF MIsCtrl(S, Snap.inc, o) THEN pc' = [ pc EXCEPT !.st = "TDDelete", !.read = o, !.tdread = [ @ EXCEPT ![TDObj] = o ] ]
       ELSE IF MIsOwner(S, Snap.inc, o) THEN pc' = [ pc EXCEPT !.st = "TDPatch", !.read = o, !.tdread = [ @ EXCEPT ![TDObj] = o ] ]
       ELSE pc' = AfterTD(pc, TRUE, TDObj, o)
    /\ NoWrite /\ UNCHANGED <<obj, cr, dyn, budget, uidc>>

\* Delete with preconditions uid + resourceVersion of the object just read
OS_TDDelete ==
    /\ pc.st = "TDDelete"
    /\ LET o == obj[TDObj]
           r == pc.read IN
       IF ~o.exists THEN /\ pc' = AfterTD(pc, TRUE, TDObj, r) /\ UNCHANGED obj /\ W("os", "Delete", TDObj, o, o, "NotFound")
       ELSE IF o.inc # r.inc \/ o.ver # r.ver
         THEN /\ EndPass /\ UNCHANGED obj /\ W("os", "Delete", TDObj, o, o, "Conflict")
       ELSE LET n == IF o.hold THEN (IF o.deleting THEN o ELSE [ o EXCEPT !.deleting = TRUE, !.ver = @ + 1 ]) ELSE NoObj IN
            /\ obj' = [ obj EXCEPT ![TDObj] = n ]
            /\ pc' = AfterTD(pc, FALSE, TDObj, r)                           \* wait for the 404
            /\ W("os", "Delete", TDObj, o, n, "ok")
    /\ UNCHANGED <<cr, dyn, budget, uidc>>

\* merge patch: remove own owner reference and the cache label (object controlled by somebody else)
OS_TDPatch ==
    /\ pc.st = "TDPatch"
    /\ LET o == obj[TDObj]
           r == pc.read IN
       IF ~o.exists THEN /\ EndPass /\ UNCHANGED obj /\ W("os", "MergePatch", TDObj, o, o, "NotFound")
       ELSE LET n0 == [ o EXCEPT !.owners = RemoveOwnerL(S, Snap.inc, r.owners), !.cache = FALSE ]
                n == IF n0 = o THEN o ELSE Bump(n0) IN
            /\ obj' = [ obj EXCEPT ![TDObj] = n ]
            /\ pc' = AfterTD(pc, TRUE, TDObj, r)
            /\ W("os", "MergePatch", TDObj, o, n, "ok")
    /\ UNCHANGED <<cr, dyn, budget, uidc>>

\* teardown unfinished: archived sets report Archived=False, deleted ones just end
OS_TDNotDone ==
    /\ pc.st = "TDNotDone"
    /\ IF StaleSnap
         THEN /\ EndPass /\ UNCHANGED cr /\ W("os", "StatusUpdate", S, cr[S], cr[S], "Conflict")
       ELSE LET n0 == [ cr[S] EXCEPT !.archived = "False", !.avail = "none", !.availCur = FALSE, !.msg = <<>> ]
                n == IF n0 = cr[S] THEN n0 ELSE [ n0 EXCEPT !.ver = @ + 1 ] IN
            /\ cr' = [ cr EXCEPT ![S] = n ] /\ EndPass /\ W("os", "StatusUpdate", S, cr[S], n, "ok")
    /\ UNCHANGED <<obj, dyn, budget, uidc>>

OS_Free ==
    /\ pc.st = "Free"
    /\ dyn' = { d \in dyn : d[1] # S }
    /\ IF Snap.fin THEN Goto("RemFin")
       ELSE IF Snap.life = "Archived" THEN Goto("ArchStatus")
       ELSE EndPass
    /\ NoWrite /\ UNCHANGED <<obj, cr, budget, uidc>>

\* MergePatch {resourceVersion, finalizers} removing the cached finalizer; a deleting set then disappears
OS_RemFin ==
    /\ pc.st = "RemFin"
    /\ IF StaleSnap
         THEN /\ EndPass /\ UNCHANGED cr /\ W("os", "MergePatch", S, cr[S], cr[S], "Conflict")
         ELSE LET n == IF cr[S].deleting /\ ~cr[S].orphan THEN NoCR ELSE [ cr[S] EXCEPT !.fin = FALSE, !.ver = @ + 1 ] IN
              /\ cr' = [ cr EXCEPT ![S] = n ]
              /\ IF Snap.life = "Archived" THEN pc' = [ pc EXCEPT !.st = "ArchStatus", !.snap = [ Snap EXCEPT !.ver = n.ver, !.fin = FALSE ] ]
                 ELSE EndPass
              /\ W("os", "MergePatch", S, cr[S], n, "remfin")
    /\ UNCHANGED <<obj, dyn, budget, uidc>>

\* Status().Update: Archived=True, controllerOf emptied, Available removed
OS_ArchStatus ==
    /\ pc.st = "ArchStatus"
    /\ IF StaleSnap
         THEN /\ EndPass /\ UNCHANGED cr /\ W("os", "StatusUpdate", S, cr[S], cr[S], "Conflict")
         ELSE LET n == [ cr[S] EXCEPT !.archived = "True", !.cof = {}, !.avail = "none", !.availCur = FALSE, !.msg = <<>>, !.ver = @ + 1 ] IN
              /\ cr' = [ cr EXCEPT ![S] = n ] /\ EndPass /\ W("os", "StatusUpdate", S, cr[S], n, "archived")
    /\ UNCHANGED <<obj, dyn, budget, uidc>>

OSNext ==
    \/ \E s \in Sets : OS_Begin(s)
    \/ OS_Get \/ OS_AddFin \/ OS_RevGet \/ OS_RevStatus \/ OS_PrevLookup \/ OS_Dry \/ OS_Watch \/ OS_DynGet
    \/ OS_UncGet \/ OS_Create \/ OS_Patch \/ OS_Status \/ OS_ErrStatus
    \/ OS_TDDry \/ OS_TDWatch \/ OS_TDGet \/ OS_TDDelete \/ OS_TDPatch \/ OS_TDNotDone \/ OS_Free \/ OS_RemFin \/ OS_ArchStatus

(* ------------------------------------------------------------------ *)
(* environment                                                           *)

EnvW(verb, key, pre, post) ==
    lastw' = [ valid |-> TRUE, actor |-> "env", verb |-> verb, key |-> key, pre |-> pre, post |-> post, x |-> "", pass |-> Idle ]

Spend(f) == budget[f] > 0 /\ budget' = [ budget EXCEPT ![f] = @ - 1 ]

\* workload controller reports a status class on a probed object
Workload(o, class) ==
    /\ o \in Probed /\ obj[o].exists /\ obj[o].probe # class /\ Spend("work")
    /\ obj' = [ obj EXCEPT ![o] = Bump([ @ EXCEPT !.probe = class ]) ]
    /\ EnvW("EnvSetStatus", o, obj[o], obj'[o]) /\ UNCHANGED <<cr, pc, dyn, uidc>>

ForeignOwner == << [ id |-> "foreign", uid |-> 0, ctrl |-> TRUE ] >>

\* third party replaces the owner references (foreign controller, or none)
TPReown(o, foreign) ==
    /\ obj[o].exists /\ Spend("env")
    /\ LET n == [ obj[o] EXCEPT !.owners = IF foreign THEN ForeignOwner ELSE <<>> ] IN
       /\ n # obj[o]
       /\ obj' = [ obj EXCEPT ![o] = Bump(n) ]
    /\ EnvW("EnvReown", o, obj[o], obj'[o]) /\ UNCHANGED <<cr, pc, dyn, uidc>>

TPDelete(o) ==
    /\ obj[o].exists /\ ~obj[o].hold /\ Spend("env")
    /\ obj' = [ obj EXCEPT ![o] = NoObj ]
    /\ EnvW("EnvDelete", o, obj[o], NoObj) /\ UNCHANGED <<cr, pc, dyn, uidc>>

TPEdit(o) ==
    /\ obj[o].exists /\ obj[o].content # "drift" /\ Spend("env")
    /\ obj' = [ obj EXCEPT ![o] = Bump([ @ EXCEPT !.content = "drift", !.probe = IF @ # "None" THEN "Stale" ELSE @ ]) ]
    /\ EnvW("EnvEdit", o, obj[o], obj'[o]) /\ UNCHANGED <<cr, pc, dyn, uidc>>

TPDropLabel(o) ==
    /\ obj[o].exists /\ obj[o].cache /\ Spend("env")
    /\ obj' = [ obj EXCEPT ![o] = Bump([ @ EXCEPT !.cache = FALSE ]) ]
    /\ EnvW("EnvRelabel", o, obj[o], obj'[o]) /\ UNCHANGED <<cr, pc, dyn, uidc>>

\* third party creates an object that some set lists (unowned or foreign-controlled, no cache label)
TPCreate(o, foreign) ==
    /\ ~obj[o].exists /\ Spend("env")
    /\ obj' = [ obj EXCEPT ![o] = [ NoObj EXCEPT !.exists = TRUE, !.inc = uidc, !.ver = 1, !.content = "foreign",
                                                  !.owners = IF foreign THEN ForeignOwner ELSE <<>> ] ]
    /\ uidc' = uidc + 1
    /\ EnvW("EnvCreate", o, obj[o], obj'[o]) /\ UNCHANGED <<cr, pc, dyn>>

UserCreate(s) ==
    /\ ~cr[s].exists /\ cr[s].inc = 0
    /\ cr' = [ cr EXCEPT ![s] = [ NoCR EXCEPT !.exists = TRUE, !.inc = uidc, !.ver = 1, !.gen = 1 ] ]
    /\ uidc' = uidc + 1
    /\ EnvW("EnvCreate", s, cr[s], cr'[s]) /\ UNCHANGED <<obj, pc, dyn, budget>>

UserLifecycle(s, life) ==
    /\ cr[s].exists /\ cr[s].life # life /\ ~cr[s].deleting /\ Spend("env")      \* the API does not restrict transitions (also out of Archived)
    /\ cr' = [ cr EXCEPT ![s] = [ @ EXCEPT !.life = life, !.ver = @ + 1, !.gen = @ + 1, !.availCur = FALSE ] ]
    /\ EnvW("EnvSetLifecycle", s, cr[s], cr'[s]) /\ UNCHANGED <<obj, pc, dyn, uidc>>

UserDelete(s, orphan) ==
    /\ cr[s].exists /\ ~cr[s].deleting /\ Spend("env")
    /\ cr' = [ cr EXCEPT ![s] = IF cr[s].fin \/ orphan
                                  THEN [ @ EXCEPT !.deleting = TRUE, !.orphan = orphan, !.ver = @ + 1 ]
                                  ELSE NoCR ]
    /\ EnvW("EnvDelete", s, cr[s], cr'[s]) /\ UNCHANGED <<obj, pc, dyn, uidc>>

\* operator restart: the in-flight pass and the dynamic cache are lost, the API server keeps its state
Crash ==
    /\ Spend("crash")
    /\ pc' = Idle /\ dyn' = {}
    /\ NoWrite /\ UNCHANGED <<obj, cr, uidc>>

EnvNext ==
    \/ \E o \in Objs : \E c \in {"Ready", "NotReady"} : Workload(o, c)
    \/ \E o \in Objs : \E f \in BOOLEAN : TPReown(o, f)
    \/ \E o \in Objs : TPDelete(o)
    \/ \E o \in Objs : TPEdit(o)
    \/ \E o \in Objs : TPDropLabel(o)
    \/ \E o \in Objs : \E f \in BOOLEAN : TPCreate(o, f)
    \/ \E s \in Sets : UserCreate(s)
    \/ \E s \in Sets : \E l \in {"Paused", "Active", "Archived"} : UserLifecycle(s, l)
    \/ \E s \in Sets : \E orph \in BOOLEAN : UserDelete(s, orph)
    \/ Crash

Next == OSNext \/ EnvNext

Spec == Init /\ [][Next]_vars

\* fairness: the controller keeps running passes to completion; the workload eventually reports Ready
Fair == /\ WF_vars(OSNext)
        /\ \A s \in Sets : SF_vars(OS_Begin(s))

FairSpec == Spec /\ Fair

\* C10 speaks about a FIXED desired state: no user creates, deletes, pauses or archives a set; third-party edits,
\* workload changes and restarts (all bounded by the budgets) are the disturbances
DisturbNext ==
    \/ \E o \in Objs : \E c \in {"Ready", "NotReady"} : Workload(o, c)
    \/ \E o \in Objs : \E f \in BOOLEAN : TPReown(o, f)
    \/ \E o \in Objs : TPDelete(o)
    \/ \E o \in Objs : TPEdit(o)
    \/ \E o \in Objs : TPDropLabel(o)
    \/ \E o \in Objs : \E f \in BOOLEAN : TPCreate(o, f)
    \/ Crash
FixedSpec == Init /\ [][OSNext \/ DisturbNext]_vars /\ Fair

VerBound == /\ \A o \in Objs : obj[o].ver <= MaxVer
            /\ \A s \in Sets : cr[s].ver <= MaxVer

(***************************************************************************)
(* Properties (same meaning as the Inv_Cxx of TraceObs.tla, on lastw and   *)
(* the pass record carried in it)                                          *)
(***************************************************************************)

LW == lastw
P == lastw.pass
OSWrite == LW.valid /\ LW.actor = "os"
ObjWrite == OSWrite /\ LW.key \in Objs
Changed == LW.pre # LW.post

\* C01: a rollout write on an existing object the set does not control only if adoption is permitted by the statement
Inv_C01_WriteOnlyIfPermitted ==
    (ObjWrite /\ LW.verb = "ApplyPatch" /\ LW.x = "patch" /\ Changed /\ ~MIsCtrl(P.s, P.snap.inc, P.read))
    => AdoptionPermitted("native", P.s, P.snap.inc, P.orev, AsCore(P.read), P.prev, CP[LW.key], FALSE)

Inv_C01_PermittedIsDone ==
    (ObjWrite /\ LW.verb = "ApplyPatch" /\ LW.x = "patch" /\ ~MIsCtrl(P.s, P.snap.inc, P.read))
    => /\ MIsCtrl(P.s, P.snap.inc, LW.post) /\ NumControllers(LW.post.owners) = 1 /\ LW.post.rev = P.orev

\* C02
Act_C02_RevisionMonotone ==
    (ObjWrite /\ LW.pre.exists /\ LW.post.exists /\ LW.pre.inc = LW.post.inc) => LW.post.rev >= LW.pre.rev
Inv_C02_SingleController ==
    (ObjWrite /\ LW.post.exists /\ LW.verb = "ApplyPatch") => NumControllers(LW.post.owners) <= 1
Inv_C02_NoTakeFromNewer ==
    (ObjWrite /\ LW.verb = "ApplyPatch" /\ LW.x = "patch" /\ MIsCtrl(P.s, P.snap.inc, LW.post) /\ ~MIsCtrl(P.s, P.snap.inc, P.read))
    => P.read.rev <= P.orev
Act_C02_RevisionFixed ==
    (LW.valid /\ LW.key \in Sets /\ LW.actor = "os" /\ LW.pre.exists /\ LW.post.exists /\ LW.pre.revision # 0)
    => LW.post.revision = LW.pre.revision

\* C03: no object of phase j written unless all objects of earlier phases were seen present and passing in this pass
Inv_C03_Gate ==
    (ObjWrite /\ LW.verb = "ApplyPatch")
    => \A i \in 1..(P.j - 1) : Range(Phases[P.s][i]) \subseteq P.okobjs

\* C04: delete of a phase-i object only after every later phase was seen gone; finalizer / Archived=True only when all gone
Inv_C04_ReverseOrder ==
    (ObjWrite /\ LW.verb = "Delete")
    => \A i \in (P.j + 1)..Len(Phases[P.s]) : Range(Phases[P.s][i]) \subseteq P.gone
Inv_C04_FinalizerHeld ==
    (OSWrite /\ LW.key \in Sets /\ LW.x \in {"remfin", "archived"} /\ P.snap.fin /\ ~P.snap.orphan)
    => AllObjs(P.s) \subseteq P.gone
\* as a fact about the cluster, at pass granularity (no third party between the reads and the release):
Inv_C04_NothingControlledWhenReleased ==
    (OSWrite /\ LW.key \in Sets /\ LW.x = "remfin" /\ ~P.snap.orphan /\ budget.env = EnvBudget)
    => \A o \in AllObjs(P.s) : ~MIsCtrl(P.s, P.snap.inc, obj[o])

\* C05: deletes carry the uid/rv just read, hit only objects the set controls at that instant; co-owned objects are only patched
Inv_C05_DeletedWasControlled ==
    (ObjWrite /\ LW.verb = "Delete" /\ Changed) => MIsCtrl(P.s, P.snap.inc, LW.pre)
Inv_C05_CoOwned ==
    (ObjWrite /\ LW.verb = "MergePatch" /\ LW.x = "ok")
    => /\ LW.post.content = LW.pre.content /\ LW.post.rev = LW.pre.rev /\ LW.post.exists
       /\ Range(LW.post.owners) \subseteq Range(P.read.owners)
Inv_C05_Orphan ==
    (ObjWrite /\ P.snap.orphan /\ P.snap.deleting) => FALSE

\* C06
Inv_C06_AvailableJustified ==
    (OSWrite /\ LW.key \in Sets /\ LW.verb = "StatusUpdate" /\ LW.x = "ok" /\ LW.post.avail = "True" /\ LW.pre.avail # "True")
    => AllObjs(P.s) \subseteq P.okobjs
Inv_C06_ControllerOfSeen ==
    (OSWrite /\ LW.key \in Sets /\ LW.verb = "StatusUpdate" /\ LW.x = "ok" /\ LW.post.cof # LW.pre.cof)
    => LW.post.cof \subseteq P.seen
Act_C06_SucceededSticky ==
    (LW.valid /\ LW.key \in Sets /\ LW.pre.exists /\ LW.post.exists /\ LW.pre.succeeded) => LW.post.succeeded
Inv_C06_Archived ==
    \A s \in Sets : (cr[s].exists /\ cr[s].archived = "True") => (cr[s].avail = "none" /\ cr[s].cof = {})

\* C09: a pass over a paused set writes no managed object
Inv_C09_NoWritesWhilePaused ==
    (ObjWrite /\ P.snap.life = "Paused" /\ ~P.snap.deleting) => FALSE

TypeOK ==
    /\ \A o \in Objs : obj[o].exists => (obj[o].inc > 0 /\ obj[o].ver > 0)
    /\ pc.st # "idle" => pc.s \in Sets

(* ---- liveness (C10), checked with FairSpec and NO state constraint: budgets make the state space finite ---- *)

\* a set that is left active and undisturbed eventually controls all its objects or is superseded / blocked
Quiet == budget.env = 0 /\ budget.work = 0 /\ budget.crash = 0

\* phase j of set s is complete: every object controlled by s and passing its probes
PhaseDone(s, j) == \A o \in Range(Phases[s][j]) : MIsCtrl(s, cr[s].inc, obj[o]) /\ MPasses(o, obj[o])
ReachablePhase(s, j) == \A i \in 1..(j - 1) : PhaseDone(s, i)
OtherController(s, o) == obj[o].exists /\ \E i \in DOMAIN obj[o].owners : obj[o].owners[i].ctrl /\ obj[o].owners[i].id # s
\* object o of set s is as s wants it, or somebody else controls it (a newer revision took it over, or a collision s must not resolve)
PrevNow(s) == { [ id |-> PrevSeq[s][k], uid |-> cr[PrevSeq[s][k]].inc, remote |-> <<>> ] : k \in { i \in DOMAIN PrevSeq[s] : cr[PrevSeq[s][i]].exists } }
\* C01 forbids s to touch o (e.g. a third party stripped or replaced the owner references of an object s may not adopt):
\* such a collision is reported, not repaired
Forbidden(s, o) == obj[o].exists /\ ~MIsOwner(s, cr[s].inc, obj[o])
                   /\ ~AdoptionPermitted("native", s, cr[s].inc, cr[s].revision, AsCore(obj[o]), PrevNow(s), CP[o], FALSE)
Repaired(s, o) == \/ MIsCtrl(s, cr[s].inc, obj[o]) /\ obj[o].content = s /\ obj[o].cache
                  \/ OtherController(s, o)
                  \/ Forbidden(s, o)
\* (observation O7: a set whose previous revision is deleted before it has computed its own revision number can never
\*  compute it - the revision reconciler does not tolerate NotFound - and reconciles nothing; that is a change of the
\*  desired state by the user, not a disturbance, and is excluded here)
RevisionKnowable(s) == cr[s].revision # 0 \/ \A k \in DOMAIN PrevSeq[s] : cr[PrevSeq[s][k]].exists
ActiveSet(s) == cr[s].exists /\ cr[s].life = "Active" /\ ~cr[s].deleting /\ cr[s].archived = "none" /\ RevisionKnowable(s)
\* every object of every phase the gate lets s reach is repaired
Converged(s) == ActiveSet(s) => \A j \in DOMAIN Phases[s] : ReachablePhase(s, j) => \A o \in Range(Phases[s][j]) : Repaired(s, o)

\* C10: whatever was disturbed (third-party edits / deletes / re-owning, workload changes, restarts - all bounded by the
\* budgets), under a fair schedule every active set ends up repaired and stays so
Live_C10_ObjectsRepaired == \A s \in Sets : <>[](Quiet => Converged(s))

\* C10: ... and the system falls silent: eventually no controller step changes an object or an ObjectSet any more
\* (no two revisions keep overwriting each other)
Live_C10_Quiescent == <>[][OSNext => (obj' = obj /\ cr' = cr)]_vars

\* C04 / C10: a set that is being deleted (not orphaned) eventually is gone, an archived one eventually reports Archived=True
Live_C10_TeardownCompletes ==
    \* (an orphan-deleted set waits for the cluster's garbage collector, which is not modelled)
    \A s \in Sets : <>[](Quiet => /\ ~(cr[s].exists /\ cr[s].deleting /\ ~cr[s].orphan)
                                  /\ (cr[s].exists /\ cr[s].life = "Archived" => cr[s].archived = "True"))

=============================================================================
