---------------------------- MODULE TraceReqMgr ----------------------------
(***************************************************************************)
(* Trace specification for C20: scripts of request arrivals and pull       *)
(* completions executed on the REAL RequestManager (gated pull function).  *)
(* The spec keeps the registered receivers per image (ReqMgr!Register /    *)
(* Broadcast collapsed to the script's granularity) and checks every       *)
(* logged observation against it.                                          *)
(***************************************************************************)
EXTENDS Naturals, Sequences, FiniteSets, TLC, Json

CONSTANT TraceFile
Trace == ndJsonDeserialize(TraceFile)
Range(s) == { s[i] : i \in DOMAIN s }

Images == {"quay.io/verif/app:v1", "quay.io/verif/app:v2"}

VARIABLES l, waiting, lw
vars == <<l, waiting, lw>>

Init == l = 1 /\ waiting = [ i \in Images |-> {} ] /\ lw = [ valid |-> FALSE, e |-> Trace[1], expect |-> {} ]

E == Trace[l]

TrReset == /\ l <= Len(Trace) /\ E.ev = "Reset" /\ waiting' = [ i \in Images |-> {} ]
           /\ lw' = [ valid |-> FALSE, e |-> E, expect |-> {} ] /\ l' = l + 1

TrReq == /\ l <= Len(Trace) /\ E.ev = "C20Req"
         /\ waiting' = [ waiting EXCEPT ![E.args.image] = @ \cup {E.args.caller} ]
         /\ lw' = [ valid |-> TRUE, e |-> E, expect |-> waiting[E.args.image] ] /\ l' = l + 1

TrRelease == /\ l <= Len(Trace) /\ E.ev = "C20Release"
             /\ waiting' = [ waiting EXCEPT ![E.args.image] = {} ]
             /\ lw' = [ valid |-> TRUE, e |-> E, expect |-> waiting[E.args.image] ] /\ l' = l + 1

TrOther == /\ l <= Len(Trace) /\ E.ev \in {"C20End", "C20Stress", "C20Hang"}
           /\ UNCHANGED waiting /\ lw' = [ valid |-> TRUE, e |-> E, expect |-> {} ] /\ l' = l + 1

Next == TrReset \/ TrReq \/ TrRelease \/ TrOther
Spec == Init /\ [][Next]_vars
Accepted == TLCGet("stats").diameter - 1 = Len(Trace)
Alias == [ l |-> l, event |-> lw.e.i ]

W == lw.e
IsEv(n) == lw.valid /\ W.ev = n

\* a request starts a registry pull iff no pull for that image is in flight (entry present <=> somebody waits)
Inv_C20_OnePullPerImage ==
    /\ IsEv("C20Req") => (W.res = "ok" /\ W.args.startedPull = (lw.expect = {}) /\ W.args.inFlightBefore = (lw.expect # {}))
    /\ IsEv("C20End") => \A i \in DOMAIN W.args.maxActive : W.args.maxActive[i] <= 1
    /\ IsEv("C20Stress") => W.args.maxActivePerImage <= 1

\* when the pull completes, exactly the callers registered for it return, each with exactly one response:
\* the package of THAT pull, or its error
Inv_C20_ExactlyOneResponse ==
    /\ (IsEv("C20Release") /\ W.res = "ok") =>
         /\ { W.args.returned[k].caller : k \in DOMAIN W.args.returned } = lw.expect
         /\ Len(W.args.returned) = Cardinality(lw.expect)
         /\ \A k \in DOMAIN W.args.returned :
               /\ W.args.returned[k].err = W.args.fail
               /\ W.args.returned[k].hasPkg = ~W.args.fail
               /\ \A k2 \in DOMAIN W.args.returned : W.args.returned[k2].content = W.args.returned[k].content
               /\ W.args.returned[k].ofImage                      \* ... of the image the caller asked for (ReqMgr!Inv_C20_RightContent)
         /\ W.args.entryCleared
    /\ IsEv("C20Stress") => (W.args.responses = W.args.expected /\ W.args.bad = 0)

\* a release with nobody waiting has no pull to complete
Inv_C20_NoPhantomPull == (IsEv("C20Release") /\ W.res = "nopull") => lw.expect = {}

\* every caller gets a private copy
Inv_C20_Private == IsEv("C20Release") => ~W.args.aliased

\* ... and nobody waits for ever: a script that does not finish (callers blocked, the manager's lock never released) is a hang
Inv_C20_NoLostWakeup == (IsEv("C20Stress") => ~W.args.lostWakeup) /\ ~IsEv("C20Hang")

=============================================================================
