//go:build verif

package dynamiccache

import (
	"k8s.io/apimachinery/pkg/runtime"
	"k8s.io/apimachinery/pkg/runtime/schema"
)

// VerifInformerMap is the (unexported) informerMap dependency, exported for the verification harness.
type VerifInformerMap = informerMap

// NewVerifCache builds a Cache with a scripted informer map (property C12 harness); everything
// else — reference bookkeeping, locking, the cache source with its handler registry — is the real code.
func NewVerifCache(scheme *runtime.Scheme, im VerifInformerMap) *Cache {
	return &Cache{
		scheme:             scheme,
		informerMap:        im,
		informerReferences: map[schema.GroupVersionKind]map[OwnerReference]struct{}{},
		cacheSource:        &cacheSource{},
	}
}

// VerifNumHandlers returns how many event handlers are registered with the cache source.
func (c *Cache) VerifNumHandlers() int {
	cs := c.cacheSource.(*cacheSource)
	cs.mu.RLock()
	defer cs.mu.RUnlock()
	return len(cs.handlers)
}
