//go:build verif

package packageimport

import (
	"context"

	"github.com/google/go-containerregistry/pkg/crane"
	"k8s.io/apimachinery/pkg/types"
	"sigs.k8s.io/controller-runtime/pkg/client"

	"package-operator.run/internal/packages/internal/packagetypes"
)

// VerifSetPull replaces the registry pull function (property C20 harness).
func (r *RequestManager) VerifSetPull(fn func(ctx context.Context, image string) (*packagetypes.RawPackage, error)) {
	r.pullImage = func(ctx context.Context, _ client.Client, _ types.NamespacedName, ref string, _ ...crane.Option,
	) (*packagetypes.RawPackage, error) {
		return fn(ctx, ref)
	}
}

// VerifInFlight returns the number of receivers registered for an image (-1: no pull in flight), read under the lock.
func (r *RequestManager) VerifInFlight(image string) int {
	r.inFlightLock.Lock()
	defer r.inFlightLock.Unlock()
	l, ok := r.inFlight[image]
	if !ok {
		return -1
	}
	return len(l)
}
