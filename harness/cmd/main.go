// Command verif-pkosim runs real package-operator controllers against the in-memory API server
// of package verifsim and writes ndjson traces for TLC. Built with `go build -overlay`.
package main

import (
	"os"

	sim "package-operator.run/internal/verifsim"
)

func main() {
	os.Exit(sim.Main(os.Args[1:]))
}
