package verifsim

import (
	"regexp"
	"context"
	"encoding/json"
	"errors"
	"fmt"
	"reflect"
	"strings"

	apierrors "k8s.io/apimachinery/pkg/api/errors"
	"k8s.io/apimachinery/pkg/api/meta"
	"k8s.io/apimachinery/pkg/apis/meta/v1/unstructured"
	"k8s.io/apimachinery/pkg/labels"
	"k8s.io/apimachinery/pkg/runtime"
	"k8s.io/apimachinery/pkg/runtime/schema"
	"k8s.io/apimachinery/pkg/types"
	"sigs.k8s.io/controller-runtime/pkg/client"
	"sigs.k8s.io/controller-runtime/pkg/client/apiutil"
)

// Client implements client.Client on top of Store, gated and traced by Sim.
type Client struct {
	sim    *Sim
	scheme *runtime.Scheme
	role   string // client (manager client: cached reads of typed objects) | uncached
}

func (s *Sim) NewClient(scheme *runtime.Scheme, role string) *Client {
	return &Client{sim: s, scheme: scheme, role: role}
}

var _ client.Client = (*Client)(nil)

var errInjected = errors.New("injected API fault")
var errDead = errors.New("process crashed")

// faultErr: an injected API fault. It is recognisable as such (errors.Is(err, errInjected)) and at the same time
// carries the API status of a transient server-side failure, cycling through the kinds a real apiserver returns,
// so that code which classifies errors (retry on 429/503/timeouts ...) takes those paths.
type faultErr struct{ *apierrors.StatusError }

func (f faultErr) Is(target error) bool { return target == errInjected }

func (s *Sim) injected() error {
	s.faultSeq++
	gr := schema.GroupResource{Group: "verif", Resource: "injected"}
	switch s.faultSeq % 6 {
	case 0:
		return errInjected // connection reset: no API status at all
	case 1:
		return faultErr{apierrors.NewTooManyRequests("injected API fault", 1)}
	case 2:
		return faultErr{apierrors.NewServiceUnavailable("injected API fault")}
	case 3:
		return faultErr{apierrors.NewServerTimeout(gr, "injected", 1)}
	case 4:
		return faultErr{apierrors.NewTimeoutError("injected API fault", 1)}
	}
	return faultErr{apierrors.NewInternalError(errInjected)}
}

func errClass(err error) string {
	switch {
	case err == nil:
		return "ok"
	case errors.Is(err, errInjected):
		return "Fault"
	case apierrors.IsNotFound(err):
		return "NotFound"
	case apierrors.IsConflict(err):
		return "Conflict"
	case apierrors.IsAlreadyExists(err):
		return "AlreadyExists"
	case apierrors.IsInvalid(err):
		return "Invalid"
	case apierrors.IsBadRequest(err):
		return "BadRequest"
	case meta.IsNoMatchError(err):
		return "NoMatch"
	case apierrors.IsInternalError(err), apierrors.IsTooManyRequests(err), apierrors.IsServiceUnavailable(err), apierrors.IsTimeout(err):
		return "ServerError"
	case errors.Is(err, errInjected):
		return "Fault"
	}
	return "Error"
}

func (c *Client) toMap(obj runtime.Object) (map[string]any, schema.GroupVersionKind, error) {
	gvk, err := apiutil.GVKForObject(obj, c.scheme)
	if err != nil {
		return nil, gvk, err
	}
	var m map[string]any
	if u, ok := obj.(*unstructured.Unstructured); ok {
		m = deepCopyMap(u.Object)
	} else {
		m, err = runtime.DefaultUnstructuredConverter.ToUnstructured(obj)
		if err != nil {
			return nil, gvk, err
		}
	}
	m["apiVersion"] = gvk.GroupVersion().String()
	m["kind"] = gvk.Kind
	return m, gvk, nil
}

// fromMap decodes a response into obj. Reads from the cache replace the whole value (reset=true);
// responses of writes are JSON-decoded into the existing value like client-go does, i.e. fields
// absent from the response keep their in-memory value.
func fromMap(m map[string]any, obj runtime.Object, reset bool) error {
	if u, ok := obj.(*unstructured.Unstructured); ok {
		u.Object = deepCopyMap(m)
		return nil
	}
	b, err := json.Marshal(m)
	if err != nil {
		return err
	}
	if reset {
		zero(obj)
	}
	return json.Unmarshal(b, obj)
}

func zero(obj any) {
	v := reflect.ValueOf(obj)
	if v.Kind() == reflect.Ptr && !v.IsNil() {
		v.Elem().Set(reflect.Zero(v.Elem().Type()))
	}
}

func (c *Client) actorFields(p *Pass) (string, int, string) {
	if p == nil {
		return "sim", 0, "-"
	}
	return p.Actor, p.ID, p.Target.String()
}

func (c *Client) emit(p *Pass, ev string, k Key, dry bool, err error, pre, post Proj, args map[string]any) {
	a, id, t := c.actorFields(p)
	c.sim.Emit(Event{Actor: a, Pass: id, Target: t, Ev: ev, Key: k.String(), Role: c.role, Dry: dry, Res: errClass(err),
		Pre: pre, Post: post, Args: args})
}

func (c *Client) proj(m map[string]any) Proj { return c.sim.Proj.Project(m) }

// ---- Reader ----

func (c *Client) Get(ctx context.Context, key client.ObjectKey, obj client.Object, _ ...client.GetOption) error {
	gvk, err := apiutil.GVKForObject(obj, c.scheme)
	if err != nil {
		return err
	}
	st := c.sim.Store
	k, _, kerr := st.keyFor(gvk, key.Namespace, key.Name)
	if kerr != nil {
		k = Key{gvk.Group, gvk.Kind, key.Namespace, key.Name}
	}
	p, fault := c.sim.gate(ctx, callInfo{verb: "Get", key: k, role: c.role})
	if fault == "dead" {
		return errDead
	}
	if fault != "" {
		c.emit(p, "Get", k, false, errInjected, Proj{}, Proj{}, nil)
		return c.sim.injected()
	}
	if kerr != nil {
		c.emit(p, "Get", k, false, kerr, Proj{}, Proj{}, nil)
		return kerr
	}
	_, typed := obj.(*unstructured.Unstructured)
	cached := c.role == "client" && !typed
	st.mu.Lock()
	m, gerr := st.get(k, cached)
	st.mu.Unlock()
	c.emit(p, "Get", k, false, gerr, c.proj(m), c.proj(m), map[string]any{"cached": cached})
	if gerr != nil {
		return gerr
	}
	if p != nil && k == p.Target && p.Snapshot == nil {
		p.Snapshot = deepCopyMap(m)
	}
	return fromMap(m, obj, true)
}

func (c *Client) List(ctx context.Context, list client.ObjectList, opts ...client.ListOption) error {
	gvk, err := apiutil.GVKForObject(list, c.scheme)
	if err != nil {
		return err
	}
	gvk.Kind = strings.TrimSuffix(gvk.Kind, "List")
	lo := client.ListOptions{}
	lo.ApplyOptions(opts)
	st := c.sim.Store
	k := Key{gvk.Group, gvk.Kind, lo.Namespace, "*"}
	p, fault := c.sim.gate(ctx, callInfo{verb: "List", key: k, role: c.role})
	if fault == "dead" {
		return errDead
	}
	if fault != "" {
		c.emit(p, "List", k, false, errInjected, Proj{}, Proj{}, nil)
		return c.sim.injected()
	}
	if _, ok := st.kinds[gvk.GroupKind()]; !ok {
		e := &meta.NoKindMatchError{GroupKind: gvk.GroupKind()}
		c.emit(p, "List", k, false, e, Proj{}, Proj{}, nil)
		return e
	}
	var sel labels.Selector
	if lo.LabelSelector != nil {
		sel = lo.LabelSelector
	}
	_, unstr := list.(*unstructured.UnstructuredList)
	cached := c.role == "client" && !unstr
	st.mu.Lock()
	items := st.list(gvk.GroupKind(), lo.Namespace, sel, cached)
	st.mu.Unlock()
	names := []any{}
	projs := []any{}
	for _, it := range items {
		names = append(names, getStr(metaOf(it), "name"))
		projs = append(projs, c.proj(it))
	}
	c.emit(p, "List", k, false, nil, Proj{}, Proj{}, map[string]any{"names": names, "items": projs, "cached": cached, "kind": gvk.Kind})
	ul := &unstructured.UnstructuredList{}
	ul.SetGroupVersionKind(gvk.GroupVersion().WithKind(gvk.Kind + "List"))
	for _, it := range items {
		ul.Items = append(ul.Items, unstructured.Unstructured{Object: it})
	}
	if l, ok := list.(*unstructured.UnstructuredList); ok {
		*l = *ul
		return nil
	}
	b, err := json.Marshal(ul)
	if err != nil {
		return err
	}
	zero(list)
	return json.Unmarshal(b, list)
}

// ---- Writer ----

type writeFn func(st *Store, k Key, ki KindInfo) (map[string]any, error)

// write runs one mutating call: gate, fault handling, effect under the store lock, event.
func (c *Client) write(ctx context.Context, ev string, obj client.Object, dry bool, args map[string]any, fn writeFn) error {
	m, gvk, err := c.toMap(obj)
	if err != nil {
		return err
	}
	st := c.sim.Store
	md := metaOf(m)
	k, ki, kerr := st.keyFor(gvk, getStr(md, "namespace"), getStr(md, "name"))
	if kerr != nil {
		k = Key{gvk.Group, gvk.Kind, getStr(md, "namespace"), getStr(md, "name")}
	}
	p, fault := c.sim.gate(ctx, callInfo{verb: ev, key: k, role: c.role, dry: dry})
	if fault == "dead" {
		return errDead
	}
	if fault == "conflict" {
		// the server rejects the write: somebody else modified the object since it was read
		pr := c.proj(st.Snapshot(k))
		if args == nil {
			args = map[string]any{}
		}
		args["lost"] = false
		cerr := conflict(k, "the object has been modified; please apply your changes to the latest version and try again")
		c.emit(p, ev, k, dry, cerr, pr, pr, args)
		return cerr
	}
	if fault == "before" {
		pr := c.proj(st.Snapshot(k))
		if args == nil {
			args = map[string]any{}
		}
		args["lost"] = false
		c.emit(p, ev, k, dry, errInjected, pr, pr, args)
		return c.sim.injected()
	}
	if kerr != nil {
		if args == nil {
			args = map[string]any{}
		}
		args["lost"] = false
		c.emit(p, ev, k, dry, kerr, Proj{}, Proj{}, args)
		return kerr
	}
	st.mu.Lock()
	pre := deepCopyMap(st.objs[k])
	var res map[string]any
	var werr error
	if class, bad := st.DryRunErr[k.Name]; dry && bad {
		switch class {
		case "TooManyRequests":
			werr = apierrors.NewTooManyRequests("throttled", 1)
		case "ServiceUnavailable":
			werr = apierrors.NewServiceUnavailable("overloaded")
		case "Timeout":
			werr = apierrors.NewTimeoutError("timeout", 1)
		default:
			werr = apierrors.NewInternalError(errors.New("admission webhook unreachable"))
		}
	} else {
		res, werr = fn(st, k, ki)
	}
	post := deepCopyMap(st.objs[k])
	st.mu.Unlock()
	prep, postp := c.proj(pre), c.proj(post)
	if p != nil && !dry && werr == nil && (prep.Exists != postp.Exists || prep.RV != postp.RV) {
		p.Writes++
	}
	if args == nil {
		args = map[string]any{}
	}
	args["lost"] = false
	if fault == "after" {
		args["lost"] = true
		c.emit(p, ev, k, dry, errInjected, prep, postp, args)
		return c.sim.injected()
	}
	if werr == nil && res != nil {
		args["ret"] = c.proj(res)
	}
	c.emit(p, ev, k, dry, werr, prep, postp, args)
	if werr != nil {
		return werr
	}
	if res != nil {
		return fromMap(res, obj, false)
	}
	return nil
}

func isDry(dr []string) bool { return len(dr) > 0 }

func (c *Client) Create(ctx context.Context, obj client.Object, opts ...client.CreateOption) error {
	co := client.CreateOptions{}
	co.ApplyOptions(opts)
	dry := isDry(co.DryRun)
	body, _, err := c.toMap(obj)
	if err != nil {
		return err
	}
	return c.write(ctx, "Create", obj, dry, map[string]any{"body": c.proj(body)},
		func(st *Store, k Key, ki KindInfo) (map[string]any, error) {
			res, err := st.create(k, ki, body, dry)
			if err == nil && !dry && st.LagCreates && k.Group == pkoGroup && passFrom(ctx) != nil {
				st.Invisible[k] = true
			}
			return res, err
		})
}

func (c *Client) Update(ctx context.Context, obj client.Object, opts ...client.UpdateOption) error {
	uo := client.UpdateOptions{}
	uo.ApplyOptions(opts)
	dry := isDry(uo.DryRun)
	body, _, err := c.toMap(obj)
	if err != nil {
		return err
	}
	return c.write(ctx, "Update", obj, dry, map[string]any{"body": c.proj(body)},
		func(st *Store, k Key, ki KindInfo) (map[string]any, error) { return st.update(k, ki, body, dry) })
}

func (c *Client) Patch(ctx context.Context, obj client.Object, patch client.Patch, opts ...client.PatchOption) error {
	po := client.PatchOptions{}
	po.ApplyOptions(opts)
	dry := isDry(po.DryRun)
	data, err := patch.Data(obj)
	if err != nil {
		return err
	}
	switch patch.Type() {
	case types.ApplyPatchType:
		var body map[string]any
		if err := json.Unmarshal(data, &body); err != nil {
			return err
		}
		fm := po.FieldManager
		return c.write(ctx, "ApplyPatch", obj, dry, map[string]any{"body": c.proj(normalize(body)), "fieldManager": fm,
			"force": po.Force != nil && *po.Force},
			func(st *Store, k Key, ki KindInfo) (map[string]any, error) {
				res, _, err := st.apply(k, ki, body, dry)
				return res, err
			})
	case types.MergePatchType:
		var pm map[string]any
		_ = json.Unmarshal(data, &pm)
		return c.write(ctx, "MergePatch", obj, dry, map[string]any{"patch": mergePatchArgs(pm)},
			func(st *Store, k Key, ki KindInfo) (map[string]any, error) { return st.mergePatch(k, ki, data, false, dry) })
	case types.JSONPatchType:
		return c.write(ctx, "JSONPatch", obj, dry, nil,
			func(st *Store, k Key, ki KindInfo) (map[string]any, error) { return st.jsonPatch(k, ki, data, dry) })
	}
	return fmt.Errorf("verifsim: unsupported patch type %s", patch.Type())
}

// mergePatchArgs abstracts a merge patch into the fields the specification talks about.
func mergePatchArgs(pm map[string]any) map[string]any {
	out := map[string]any{"rv": "", "setsFinalizers": false, "finalizers": []any{}, "setsOwners": false, "owners": []any{},
		"dropsCacheLabel": false, "setsPaused": false, "paused": false, "other": false}
	for k, v := range pm {
		switch k {
		case "metadata":
			md, _ := v.(map[string]any)
			for mk, mv := range md {
				switch mk {
				case "resourceVersion":
					out["rv"], _ = mv.(string)
				case "finalizers":
					out["setsFinalizers"] = true
					if l, ok := mv.([]any); ok {
						out["finalizers"] = l
					}
				case "ownerReferences":
					out["setsOwners"] = true
					ow := []any{}
					if l, ok := mv.([]any); ok {
						for _, e := range l {
							em, _ := e.(map[string]any)
							ctrl, _ := em["controller"].(bool)
							ow = append(ow, OwnerP{ID: getStr(em, "kind") + "/" + getStr(em, "name"), UID: getStr(em, "uid"), Ctrl: ctrl})
						}
					}
					out["owners"] = ow
				case "labels":
					lm, _ := mv.(map[string]any)
					for lk, lv := range lm {
						if lk == cacheLbl && lv == nil {
							out["dropsCacheLabel"] = true
						} else {
							out["other"] = true
						}
					}
				default:
					out["other"] = true
				}
			}
		case "spec":
			sm, _ := v.(map[string]any)
			for sk, sv := range sm {
				if sk == "paused" {
					out["setsPaused"] = true
					out["paused"], _ = sv.(bool)
				} else {
					out["other"] = true
				}
			}
		default:
			out["other"] = true
		}
	}
	return out
}

func (c *Client) Delete(ctx context.Context, obj client.Object, opts ...client.DeleteOption) error {
	do := client.DeleteOptions{}
	do.ApplyOptions(opts)
	dry := isDry(do.DryRun)
	var uid, rv *string
	args := map[string]any{"hasUID": false, "hasRV": false, "uid": "", "rv": int64(0), "propagation": ""}
	if do.Preconditions != nil {
		if do.Preconditions.UID != nil {
			u := string(*do.Preconditions.UID)
			uid = &u
			args["hasUID"], args["uid"] = true, u
		}
		if do.Preconditions.ResourceVersion != nil {
			rv = do.Preconditions.ResourceVersion
			args["hasRV"] = true
			var n int64
			fmt.Sscan(*rv, &n)
			args["rv"] = n
		}
	}
	if do.PropagationPolicy != nil {
		args["propagation"] = string(*do.PropagationPolicy)
	}
	return c.write(ctx, "Delete", obj, dry, args,
		func(st *Store, k Key, ki KindInfo) (map[string]any, error) {
			_, _, err := st.del(k, ki, uid, rv, dry)
			return nil, err
		})
}

func (c *Client) DeleteAllOf(context.Context, client.Object, ...client.DeleteAllOfOption) error {
	return errors.New("verifsim: DeleteAllOf not supported")
}

// ---- status ----

type statusWriter struct{ c *Client }

func (c *Client) Status() client.SubResourceWriter { return statusWriter{c} }

func (c *Client) SubResource(sub string) client.SubResourceClient {
	if sub == "status" {
		return subResClient{statusWriter{c}}
	}
	panic("verifsim: subresource " + sub)
}

type subResClient struct{ statusWriter }

func (subResClient) Get(context.Context, client.Object, client.Object, ...client.SubResourceGetOption) error {
	return errors.New("verifsim: subresource get not supported")
}

func (w statusWriter) Create(context.Context, client.Object, client.Object, ...client.SubResourceCreateOption) error {
	return errors.New("verifsim: subresource create not supported")
}

func (w statusWriter) Update(ctx context.Context, obj client.Object, opts ...client.SubResourceUpdateOption) error {
	body, _, err := w.c.toMap(obj)
	if err != nil {
		return err
	}
	bp := w.c.proj(body)
	return w.c.write(ctx, "StatusUpdate", obj, false, map[string]any{"body": bp, "failedPhase": failedPhase(bp)},
		func(st *Store, k Key, ki KindInfo) (map[string]any, error) { return st.statusUpdate(k, ki, body, false) })
}

func (w statusWriter) Patch(ctx context.Context, obj client.Object, patch client.Patch, opts ...client.SubResourcePatchOption) error {
	data, err := patch.Data(obj)
	if err != nil {
		return err
	}
	if patch.Type() != types.MergePatchType {
		return fmt.Errorf("verifsim: unsupported status patch type %s", patch.Type())
	}
	return w.c.write(ctx, "StatusPatch", obj, false, nil,
		func(st *Store, k Key, ki KindInfo) (map[string]any, error) { return st.mergePatch(k, ki, data, true, false) })
}

// ---- misc ----

func (c *Client) Scheme() *runtime.Scheme     { return c.scheme }
func (c *Client) RESTMapper() meta.RESTMapper { return c.sim.Store.RESTMapper() }
func (c *Client) GroupVersionKindFor(obj runtime.Object) (schema.GroupVersionKind, error) {
	return apiutil.GVKForObject(obj, c.scheme)
}

func (c *Client) IsObjectNamespaced(obj runtime.Object) (bool, error) {
	gvk, err := apiutil.GVKForObject(obj, c.scheme)
	if err != nil {
		return false, err
	}
	ki, ok := c.sim.Store.kinds[gvk.GroupKind()]
	if !ok {
		return false, &meta.NoKindMatchError{GroupKind: gvk.GroupKind()}
	}
	return ki.Namespaced, nil
}

// failedPhase returns the phases (of the object's own spec) that the Available=False/ProbeFailure condition message
// names, i.e. whose name occurs in it as a whole word; it does not depend on the wording of the message.
func failedPhase(p Proj) []string {
	out := []string{}
	for _, c := range p.CR.Conds {
		if c.Type == "Available" && c.Reason == "ProbeFailure" {
			for _, ph := range p.CR.Phases {
				if ph.Name == "" {
					continue
				}
				if regexp.MustCompile(`(^|[^A-Za-z0-9_-])` + regexp.QuoteMeta(ph.Name) + `($|[^A-Za-z0-9_-])`).MatchString(c.Msg) {
					out = append(out, ph.Name)
				}
			}
		}
	}
	return out
}
