package verifsim

import (
	"archive/tar"
	"bytes"
	"context"
	"errors"
	"flag"
	"fmt"
	"os"
	"os/exec"
	"path/filepath"
	"runtime/debug"
	"strings"
	"time"

	v1 "github.com/google/go-containerregistry/pkg/v1"
	"github.com/google/go-containerregistry/pkg/v1/empty"
	"github.com/google/go-containerregistry/pkg/v1/mutate"
	"github.com/google/go-containerregistry/pkg/v1/tarball"
	"io"
	metav1 "k8s.io/apimachinery/pkg/apis/meta/v1"
	"k8s.io/apimachinery/pkg/apis/meta/v1/unstructured"

	corev1alpha1 "package-operator.run/apis/core/v1alpha1"
	"package-operator.run/internal/apis/manifests"
	internalcmd "package-operator.run/internal/cmd"
	"package-operator.run/internal/packages"
	"package-operator.run/internal/transform"
)

// C19: shape classes (spec/Shapes.tla) of externally controlled inputs, each run through the real entry
// point under recover with a watchdog. One C19Row event per (entry, shape).

type c19Row struct {
	Entry string
	Shape string
}

// guarded runs f under recover and a watchdog.
func guarded(f func() error) (outcome, detail string) {
	done := make(chan [2]string, 1)
	go func() {
		defer func() {
			if r := recover(); r != nil {
				done <- [2]string{"panic", fmt.Sprintf("%v @ %s", r, topPKOFrame(string(debugStack())))}
			}
		}()
		if err := f(); err != nil {
			done <- [2]string{"error", errString(err)}
			return
		}
		done <- [2]string{"ok", ""}
	}()
	select {
	case r := <-done:
		return r[0], r[1]
	case <-time.After(10 * time.Second):
		return "timeout", ""
	}
}

var condMapShapes = map[string]string{
	"valid":      "Available => my.pkg/Available",
	"twoLines":   "Available => my.pkg/Available\nReady => my.pkg/Ready",
	"noArrow":    "Available my.pkg/Available",
	"emptyLeft":  "=> my.pkg/Available",
	"emptyRight": "Available =>",
	"badLine2":   "Available => my.pkg/Available\ngarbage",
	"empty":      "",
	"onlySpaces": "   ",
}

func condMapPackage(shape string) packages.Files {
	obj := fmt.Sprintf("apiVersion: example.verif/v1\nkind: Widget\nmetadata:\n  name: w1\n  annotations:\n    package-operator.run/phase: p1\n    package-operator.run/condition-map: %q\nspec:\n  size: 1\n", condMapShapes[shape])
	return packages.Files{"manifest.yaml": []byte(manifestYAML("app", "")), "w.yaml": []byte(obj)}
}

var manifestShapes = map[string]string{
	"noPhases":        "apiVersion: manifests.package-operator.run/v1alpha1\nkind: PackageManifest\nmetadata:\n  name: app\nspec:\n  scopes: [Namespaced]\n",
	"duplicatePhases": "apiVersion: manifests.package-operator.run/v1alpha1\nkind: PackageManifest\nmetadata:\n  name: app\nspec:\n  scopes: [Namespaced]\n  phases:\n  - name: p1\n  - name: p1\n",
	"noScopes":        "apiVersion: manifests.package-operator.run/v1alpha1\nkind: PackageManifest\nmetadata:\n  name: app\nspec:\n  phases:\n  - name: p1\n",
	"notYAML":         "{{{{ not yaml",
	"wrongKind":       "apiVersion: v1\nkind: ConfigMap\nmetadata:\n  name: app\n",
	"emptyFile":       "",
	"probeNoSelector": "apiVersion: manifests.package-operator.run/v1alpha1\nkind: PackageManifest\nmetadata:\n  name: app\nspec:\n  scopes: [Namespaced]\n  phases:\n  - name: p1\n  availabilityProbes:\n  - probes:\n    - condition: {type: Available, status: \"True\"}\n",
	"celConditionBad": "apiVersion: manifests.package-operator.run/v1alpha1\nkind: PackageManifest\nmetadata:\n  name: app\nspec:\n  scopes: [Namespaced]\n  phases:\n  - name: p1\n  filter:\n    conditions:\n    - name: c1\n      expression: \"1 +\"\n",
	"celPathNonBool":  "apiVersion: manifests.package-operator.run/v1alpha1\nkind: PackageManifest\nmetadata:\n  name: app\nspec:\n  scopes: [Namespaced]\n  phases:\n  - name: p1\n  filter:\n    paths:\n    - glob: \"**\"\n      expression: \"config.x\"\n",
}

var objectShapes = map[string]string{
	"notAMap":        "- just\n- a list\n",
	"noKind":         "apiVersion: v1\nmetadata:\n  name: x\n  annotations:\n    package-operator.run/phase: p1\n",
	"noName":         "apiVersion: v1\nkind: ConfigMap\nmetadata:\n  annotations:\n    package-operator.run/phase: p1\n",
	"annotationsStr": "apiVersion: v1\nkind: ConfigMap\nmetadata:\n  name: x\n  annotations: oops\n",
	"labelsList":     "apiVersion: v1\nkind: ConfigMap\nmetadata:\n  name: x\n  labels: [a, b]\n  annotations:\n    package-operator.run/phase: p1\n",
	"celAnnotNonBool": "apiVersion: v1\nkind: ConfigMap\nmetadata:\n  name: x\n  annotations:\n    package-operator.run/phase: p1\n    package-operator.run/condition: \"config.x\"\n",
	"celAnnotBad":    "apiVersion: v1\nkind: ConfigMap\nmetadata:\n  name: x\n  annotations:\n    package-operator.run/phase: p1\n    package-operator.run/condition: \"1 +\"\n",
	"unknownPhase":   "apiVersion: v1\nkind: ConfigMap\nmetadata:\n  name: x\n  annotations:\n    package-operator.run/phase: nope\n",
	"tmplRecursion":  "",
}

func renderFiles(fs packages.Files, cfg map[string]any) error {
	ctx := context.Background()
	pkg, err := packages.DefaultStructuralLoader.LoadComponent(ctx, &packages.RawPackage{Files: fs}, "")
	if err != nil {
		return err
	}
	tctx := packages.PackageRenderContext{
		Package: manifests.TemplateContextPackage{TemplateContextObjectMeta: manifests.TemplateContextObjectMeta{Name: "inst", Namespace: NS}},
		Config:  cfg,
	}
	inst, err := packages.RenderPackageInstance(ctx, pkg, tctx, packages.DefaultPackageValidators, packages.DefaultObjectValidators)
	if err != nil {
		return err
	}
	_ = packages.RenderObjectSetTemplateSpec(inst)
	return nil
}

func writePackageDir(dir string, fs packages.Files) error {
	_ = os.RemoveAll(dir)
	for p, c := range fs {
		fp := filepath.Join(dir, p)
		if err := os.MkdirAll(filepath.Dir(fp), 0o755); err != nil {
			return err
		}
		if err := os.WriteFile(fp, c, 0o644); err != nil {
			return err
		}
	}
	return nil
}

// tar shapes for the OCI import
func tarOf(entries [][2]string, truncate bool) []byte {
	var buf bytes.Buffer
	tw := tar.NewWriter(&buf)
	for _, e := range entries {
		_ = tw.WriteHeader(&tar.Header{Name: e[0], Mode: 0o644, Size: int64(len(e[1]))})
		_, _ = tw.Write([]byte(e[1]))
	}
	_ = tw.Close()
	b := buf.Bytes()
	if truncate && len(b) > 700 {
		b = b[:700]
	}
	return b
}

var ociShapes = map[string]func() []byte{
	"valid":       func() []byte { return tarOf([][2]string{{"package/manifest.yaml", manifestYAML("app", "")}}, false) },
	"emptyLayer":  func() []byte { return tarOf(nil, false) },
	"outsideDir":  func() []byte { return tarOf([][2]string{{"etc/passwd", "x"}}, false) },
	"dotdot":      func() []byte { return tarOf([][2]string{{"package/../../x", "x"}}, false) },
	"duplicate":   func() []byte { return tarOf([][2]string{{"package/a.yaml", "a: 1"}, {"package/a.yaml", "a: 2"}}, false) },
	"truncated":   func() []byte { return tarOf([][2]string{{"package/manifest.yaml", manifestYAML("app", "")}, {"package/b.yaml", "b: 1"}}, true) },
	"garbage":     func() []byte { return []byte("this is not a tar archive at all, just some bytes to confuse the reader................................................................................................................................................................................................................................................................................................................................................................................................................................................................................................................") },
	"badSecondHeader": func() []byte {
		b := tarOf([][2]string{{"package/manifest.yaml", "a: 1"}}, false)
		// keep the first entry (header + one data block), then a block that is not a valid tar header
		junk := bytes.Repeat([]byte("garbage!"), 64)
		return append(append([]byte{}, b[:1024]...), junk...)
	},
	"streamError":  func() []byte { return []byte("STREAMERR") },
	"absolutePath": func() []byte { return tarOf([][2]string{{"/package/manifest.yaml", "x"}}, false) },
}

// errLayer streams the first bytes of the layer and then fails, like an interrupted registry download.
type errLayer struct {
	v1.Layer
	data []byte
}

type failingReader struct {
	r    io.Reader
	left int
}

func (f *failingReader) Read(p []byte) (int, error) {
	if f.left <= 0 {
		return 0, errors.New("connection reset by peer")
	}
	if len(p) > f.left {
		p = p[:f.left]
	}
	n, err := f.r.Read(p)
	f.left -= n
	return n, err
}

func (l errLayer) Uncompressed() (io.ReadCloser, error) {
	return io.NopCloser(&failingReader{r: bytes.NewReader(l.data), left: 1024}), nil
}

func importOCI(tarBytes []byte) error {
	layer, err := tarball.LayerFromOpener(func() (io.ReadCloser, error) { return io.NopCloser(bytes.NewReader(tarBytes)), nil })
	if err != nil {
		return err
	}
	if bytes.HasPrefix(tarBytes, []byte("STREAMERR")) {
		real := tarOf([][2]string{{"package/manifest.yaml", manifestYAML("app", "")}, {"package/b.yaml", "b: 1"}}, false)
		layer, err = tarball.LayerFromOpener(func() (io.ReadCloser, error) { return io.NopCloser(bytes.NewReader(real)), nil })
		if err != nil {
			return err
		}
		layer = errLayer{Layer: layer, data: real}
	}
	img, err := mutate.AppendLayers(empty.Image, layer)
	if err != nil {
		return err
	}
	_, err = packages.FromOCI(context.Background(), img)
	return err
}

// status shapes of managed / templated objects
var statusShapes = map[string]any{
	"absent":          nil,
	"notAMap":         "oops",
	"condsNotAList":   map[string]any{"conditions": "oops"},
	"condNotAMap":     map[string]any{"conditions": []any{"oops"}},
	"condNoType":      map[string]any{"conditions": []any{map[string]any{"status": "True", "reason": "R", "message": "m"}}},
	"condNoStatus":    map[string]any{"conditions": []any{map[string]any{"type": "Available", "reason": "R", "message": "m"}}},
	"condNoReason":    map[string]any{"conditions": []any{map[string]any{"type": "Available", "status": "True"}}},
	"condIntValues":   map[string]any{"conditions": []any{map[string]any{"type": int64(1), "status": int64(2), "reason": int64(3), "message": int64(4)}}},
	"condOGString":    map[string]any{"conditions": []any{map[string]any{"type": "Available", "status": "True", "reason": "R", "message": "m", "observedGeneration": "one"}}},
	"ogFloat":         map[string]any{"observedGeneration": 1.5, "conditions": []any{map[string]any{"type": "Available", "status": "True", "reason": "R", "message": "m"}}},
	"ogString":        map[string]any{"observedGeneration": "x"},
	"wellFormed":      map[string]any{"observedGeneration": int64(1), "conditions": []any{map[string]any{"type": "Available", "status": "True", "reason": "R", "message": "m", "observedGeneration": int64(1)}}},
	"condNull":        map[string]any{"conditions": []any{nil}},
	"curNoType":       map[string]any{"conditions": []any{map[string]any{"status": "True", "reason": "R", "message": "m", "observedGeneration": int64(1)}}},
	"curNoReason":     map[string]any{"conditions": []any{map[string]any{"type": "Available", "status": "True", "observedGeneration": int64(1)}}},
	"curNoMessage":    map[string]any{"conditions": []any{map[string]any{"type": "Available", "status": "True", "reason": "R", "observedGeneration": int64(1)}}},
	"curIntValues":    map[string]any{"conditions": []any{map[string]any{"type": int64(1), "status": int64(2), "reason": int64(3), "message": int64(4), "observedGeneration": int64(1)}}},
	"curNoStatus":     map[string]any{"conditions": []any{map[string]any{"type": "Available", "reason": "R", "message": "m", "observedGeneration": int64(1)}}},
	"nestedDeep":      map[string]any{"conditions": []any{map[string]any{"type": map[string]any{"a": "b"}, "status": []any{"x"}}}},
}

var sourceItemShapes = map[string][2]string{
	"valid":          {".data.a", ".a"},
	"emptyKey":       {"", ".a"},
	"emptyDest":      {".data.a", ""},
	"destNoDot":      {".data.a", "a"},
	"keyNoDot":       {"data.a", ".a"},
	"keyBadJSONPath": {".data[", ".a"},
	"keyBraces":      {"{.data.a}", ".a"},
	"destNested":     {".data.a", ".x.y.z"},
	"destDotOnly":    {".data.a", "."},
	"keyMissing":     {".data.nope", ".a"},
	"destClash":      {".data", ".a.b"},
}

// include shapes: template recursion through `include` (package templates and ObjectTemplate templates share the
// function). A recursion that is not stopped ends in a fatal stack overflow, which no recover() can catch, so each
// of these rows runs in a child process (pkosim shape-one); a child that dies is a crash of package-operator.
var includeShapes = map[string]string{
	"selfRecursion":    `{{define "walk"}}{{include "walk" .}}{{end}}{{include "walk" .}}`,
	"mutualRecursion":  `{{define "ping"}}{{include "pong" .}}{{end}}{{define "pong"}}{{include "ping" .}}{{end}}{{include "ping" .}}`,
	"recurseAfterLeaf": `{{define "walk"}}{{if .leaf}}x{{else}}{{include "walk" (dict "leaf" true)}}{{include "walk" .}}{{end}}{{end}}{{include "walk" (dict "leaf" false)}}`,
	"recurseTwice":     `{{define "walk"}}{{if .leaf}}x{{else}}{{include "walk" (dict "leaf" true)}}{{include "walk" (dict "leaf" true)}}{{include "walk" .}}{{end}}{{end}}{{include "walk" (dict "leaf" false)}}`,
	"finiteDepth":      `{{define "down"}}{{if gt (int .n) 0}}{{include "down" (dict "n" (sub (int .n) 1))}}{{else}}x{{end}}{{end}}{{include "down" (dict "n" 200)}}`,
}

func runIncludeShape(entry, shape string) error {
	tmpl := includeShapes[shape]
	switch entry {
	case "render-include":
		fs := packages.Files{"manifest.yaml": []byte(manifestYAML("app", "")),
			"a.yaml.gotmpl": []byte(cmDoc("cm1", "p1", "v") + "# " + tmpl + "\n")}
		return renderFiles(fs, map[string]any{"x": "str"})
	case "template-include":
		t, err := transform.TemplateWithSprigFuncs("apiVersion: v1\nkind: ConfigMap\nmetadata:\n  name: out\ndata:\n  a: \"" + tmpl + "\"\n")
		if err != nil {
			return err
		}
		var b strings.Builder
		return t.Execute(&b, map[string]any{"config": map[string]any{}})
	}
	return fmt.Errorf("unknown entry %s", entry)
}

// isolated runs one include row in a child process and classifies how it ended.
func isolated(entry, shape string) (outcome, detail string) {
	exe, err := os.Executable()
	if err != nil {
		return "error", "no executable: " + err.Error()
	}
	ctx, cancel := context.WithTimeout(context.Background(), 60*time.Second)
	defer cancel()
	out, err := exec.CommandContext(ctx, exe, "shape-one", "-mode", entry, "-profile", shape, "-out", os.DevNull).CombinedOutput()
	text := string(out)
	if i := strings.Index(text, "C19OUTCOME "); i >= 0 && err == nil {
		f := strings.SplitN(strings.TrimSpace(strings.SplitN(text[i+len("C19OUTCOME "):], "\n", 2)[0]), " ", 2)
		if len(f) == 2 {
			return f[0], f[1]
		}
		return f[0], ""
	}
	if ctx.Err() != nil {
		return "timeout", "child process did not finish"
	}
	first := strings.SplitN(strings.TrimSpace(text), "\n", 2)[0]
	if len(first) > 160 {
		first = first[:160]
	}
	return "panic", "child process died: " + first
}

func (w *World) c19Emit(entry, shape, outcome, detail string) {
	w.Emit(Event{Actor: "c19", Ev: "C19Row", Key: "-", Res: outcome, Args: map[string]any{"entry": entry, "shape": shape, "outcome": outcome, "detail": detail}})
}

// run a controller pass and classify
var storedCondShapes = map[string][]string{
	"none":         {"Available"},
	"mappedFirst":  {"my.pkg/A", "Available", "Succeeded"},
	"mappedMiddle": {"Available", "my.pkg/A", "Succeeded"},
	"mappedLast":   {"Available", "my.pkg/A"},
	"twoAdjacent":  {"my.pkg/A", "my.pkg/B", "Available"},
	"twoApart":     {"my.pkg/A", "Available", "my.pkg/B"},
	"onlyMapped":   {"my.pkg/A"},
	"allMapped":    {"a/x", "b/y", "c/z"},
}

func (w *World) c19Pass(entry, shape, actor string, k Key) {
	before := w.Panics
	var p *Pass
	outcome, detail := guarded(func() error {
		p = w.RunPass(actor, k)
		return p.Err
	})
	if w.Panics > before {
		outcome, detail = "panic", "in reconcile pass"
		for i := len(w.Events) - 1; i >= 0; i-- {
			if w.Events[i].Ev == "Panic" {
				detail, _ = w.Events[i].Args["frame"].(string)
				break
			}
		}
	}
	w.c19Emit(entry, shape, outcome, detail)
}

func init() {
	// child process of the include rows: a small stack limit makes unbounded recursion die quickly
	extraDrivers["shape-one"] = func(w *World, _ *flag.FlagSet, a driverArgs) int {
		debug.SetMaxStack(64 << 20)
		o, d := guarded(func() error { return runIncludeShape(a.mode, a.profile) })
		fmt.Printf("C19OUTCOME %s %s\n", o, strings.ReplaceAll(d, "\n", " "))
		return 0
	}
	extraDrivers["shape-table"] = func(w *World, _ *flag.FlagSet, a driverArgs) int {
		w.KeepEvents = true
		w.Reset("shape-table")
		scratch := filepath.Join(os.TempDir(), fmt.Sprintf("verif-c19-%d", os.Getpid()))
		defer os.RemoveAll(scratch)
		tree := internalcmd.NewTree(w.Scheme)
		validate := internalcmd.NewValidate(w.Scheme)

		for _, shape := range sortedStr(condMapShapes) {
			fs := condMapPackage(shape)
			o, d := guarded(func() error { return renderFiles(fs, nil) })
			w.c19Emit("render-condmap", shape, o, d)
			_ = writePackageDir(scratch, fs)
			o, d = guarded(func() error { _, err := tree.RenderPackage(context.Background(), scratch); return err })
			w.c19Emit("cli-tree-condmap", shape, o, d)
			o, d = guarded(func() error { return validate.ValidatePackage(context.Background(), internalcmd.WithPath(scratch)) })
			w.c19Emit("cli-validate-condmap", shape, o, d)
		}
		for _, shape := range sortedStr(manifestShapes) {
			fs := packages.Files{"manifest.yaml": []byte(manifestShapes[shape]), "a.yaml": []byte(cmDoc("cm1", "p1", "v"))}
			o, d := guarded(func() error { return renderFiles(fs, map[string]any{"x": "str"}) })
			w.c19Emit("render-manifest", shape, o, d)
			_ = writePackageDir(scratch, fs)
			o, d = guarded(func() error { _, err := tree.RenderPackage(context.Background(), scratch); return err })
			w.c19Emit("cli-tree-manifest", shape, o, d)
			o, d = guarded(func() error { return validate.ValidatePackage(context.Background(), internalcmd.WithPath(scratch)) })
			w.c19Emit("cli-validate-manifest", shape, o, d)
		}
		for _, shape := range sortedStr(objectShapes) {
			fs := packages.Files{"manifest.yaml": []byte(manifestYAML("app", "")), "a.yaml": []byte(objectShapes[shape])}
			if shape == "tmplRecursion" {
				fs = packages.Files{"manifest.yaml": []byte(manifestYAML("app", "")),
					"a.yaml.gotmpl": []byte("{{- define \"loop\" -}}{{ include \"loop\" . }}{{- end -}}\n" + cmDoc("cm1", "p1", "v") + "# {{ include \"loop\" . }}\n")}
			}
			o, d := guarded(func() error { return renderFiles(fs, map[string]any{"x": "str"}) })
			w.c19Emit("render-object", shape, o, d)
			_ = writePackageDir(scratch, fs)
			o, d = guarded(func() error { _, err := tree.RenderPackage(context.Background(), scratch); return err })
			w.c19Emit("cli-tree-object", shape, o, d)
		}
		for _, entry := range []string{"render-include", "template-include"} {
			for _, shape := range sortedStr(includeShapes) {
				o, d := isolated(entry, shape)
				w.c19Emit(entry, shape, o, d)
			}
		}
		for _, shape := range sortedStr(ociShapes) {
			b := ociShapes[shape]()
			o, d := guarded(func() error { return importOCI(b) })
			w.c19Emit("oci-import", shape, o, d)
		}
		// managed object status shapes: ObjectSet with a condition mapping, probing + mapConditions
		for _, shape := range sortedStr(statusShapes) {
			w.Reset("shape-status-" + shape)
			wd := Widget("w1", 1)
			os1 := NewObjectSet("a1", []PhaseSpec{{Name: "p1", Objects: []*unstructured.Unstructured{wd}}})
			os1.Spec.Phases[0].Objects[0].ConditionMappings = []corev1alpha1.ConditionMapping{{SourceType: "Available", DestinationType: "my.pkg/Available"}}
			w.EnvCreate(os1)
			w.RunPass("os", KOS("a1"))
			w.EnvMutate("EnvSetStatus", KW("w1"), map[string]any{"class": shape}, func(m map[string]any) {
				if statusShapes[shape] == nil {
					delete(m, "status")
				} else {
					m["status"] = normalizeAnyKeepInts(statusShapes[shape])
				}
			})
			w.c19Pass("objectset-status", shape, "os", KOS("a1"))
			// the same shapes on the object an ObjectTemplate produced
			t := newObjectTemplate("ok")
			t.Spec.Template = "apiVersion: example.verif/v1\nkind: Widget\nmetadata:\n  name: tw\nspec:\n  size: 1\n"
			t.Spec.Sources = nil
			w.EnvCreate(t)
			w.RunPass("tm", KOT("t1"))
			w.EnvMutate("EnvSetStatus", KW("tw"), map[string]any{"class": shape}, func(m map[string]any) {
				if statusShapes[shape] == nil {
					delete(m, "status")
				} else {
					m["status"] = normalizeAnyKeepInts(statusShapes[shape])
				}
			})
			w.c19Pass("template-target-status", shape, "tm", KOT("t1"))
		}
		// availability probe entries whose probe list is empty or holds only a probe of no known type (both valid per CRD),
		// selecting an object that exists with a current status
		for _, shape := range []string{"emptyList", "emptyProbe", "twoEmptyProbes"} {
			w.Reset("shape-probes-" + shape)
			os1 := NewObjectSet("a1", []PhaseSpec{{Name: "p1", Objects: []*unstructured.Unstructured{Widget("w1", 1)}}})
			pr := corev1alpha1.ObjectSetProbe{Selector: corev1alpha1.ProbeSelector{Kind: &corev1alpha1.PackageProbeKindSpec{Group: gvkWidget.Group, Kind: "Widget"}}}
			switch shape {
			case "emptyList":
				pr.Probes = []corev1alpha1.Probe{}
			case "emptyProbe":
				pr.Probes = []corev1alpha1.Probe{{}}
			case "twoEmptyProbes":
				pr.Probes = []corev1alpha1.Probe{{}, {}}
			}
			os1.Spec.AvailabilityProbes = []corev1alpha1.ObjectSetProbe{pr}
			w.EnvCreate(os1)
			w.RunPass("os", KOS("a1"))
			w.EnvSetWidgetStatus(KW("w1"), "Ready")
			w.c19Pass("objectset-probes", shape, "os", KOS("a1"))
		}
		// the owner's own stored status is input of the next pass: mapped conditions (type with a "/") of an earlier
		// pass at every position of the condition list
		for _, shape := range sortedStr(storedCondShapes) {
			conds := []any{}
			for _, t := range storedCondShapes[shape] {
				conds = append(conds, map[string]any{"type": t, "status": "True", "reason": "Stored", "message": "", "observedGeneration": int64(1),
					"lastTransitionTime": "2024-01-01T00:00:00Z"})
			}
			setConds := func(k Key) {
				w.EnvMutate("EnvSetStatus", k, map[string]any{"class": shape}, func(m map[string]any) {
					st, _ := m["status"].(map[string]any)
					if st == nil {
						st = map[string]any{}
						m["status"] = st
					}
					st["conditions"] = deepCopyAny(conds)
				})
			}
			w.Reset("shape-stored-os-" + shape)
			os1 := NewObjectSet("a1", []PhaseSpec{{Name: "p1", Mapped: true, Objects: []*unstructured.Unstructured{Widget("w1", 1)}}})
			w.EnvCreate(os1)
			w.RunPass("os", KOS("a1"))
			w.EnvSetWidgetStatus(KW("w1"), "Ready")
			setConds(KOS("a1"))
			w.c19Pass("objectset-stored-conditions", shape, "os", KOS("a1"))
			w.Reset("shape-stored-od-" + shape)
			w.EnvCreate(NewObjectDeployment("d1", []PhaseSpec{{Name: "p1", Mapped: true, Objects: []*unstructured.Unstructured{Widget("w1", 1)}}}))
			w.RunPass("od", KOD("d1"))
			for _, k := range w.CRKeys("ObjectSet") {
				w.RunPass("os", k)
			}
			setConds(KOD("d1"))
			w.c19Pass("deployment-stored-conditions", shape, "od", KOD("d1"))
		}
		// ObjectTemplate source item shapes
		for _, shape := range sortedStr(sourceItemShapes) {
			w.Reset("shape-source-" + shape)
			w.EnvCreate(cmWith("src-a", "a", "v"))
			t := newObjectTemplate("ok")
			it := sourceItemShapes[shape]
			t.Spec.Sources = []corev1alpha1.ObjectTemplateSource{{APIVersion: "v1", Kind: "ConfigMap", Name: "src-a",
				Items: []corev1alpha1.ObjectTemplateSourceItem{{Key: it[0], Destination: it[1]}}}}
			w.EnvCreate(t)
			w.c19Pass("template-source-item", shape, "tm", KOT("t1"))
		}
		// the API server rejects the cache-label patch on a source that exists outside the dynamic cache
		for _, shape := range []string{"patchRejected", "patchAccepted"} {
			w.Reset("shape-source-patch-" + shape)
			w.EnvCreate(cmWith("src-a", "a", "v"))
			w.Store.RejectNames = map[string]bool{"src-a": shape == "patchRejected"}
			w.EnvCreate(newObjectTemplate("ok"))
			w.c19Pass("template-source-patch", shape, "tm", KOT("t1"))
			w.Store.RejectNames = map[string]bool{}
		}
		// ObjectTemplate output shapes
		for shape, tmpl := range map[string]string{"notYAML": "{{ \"{{{{\" }} : : :", "notAMap": "- a\n- b\n", "noKind": "apiVersion: v1\nmetadata:\n  name: x\n",
			"emptyOutput": "", "scalar": "42", "badTemplate": "{{ .config.a | nosuch }}", "noName": "apiVersion: v1\nkind: ConfigMap\n"} {
			w.Reset("shape-output-" + shape)
			t := newObjectTemplate("ok")
			t.Spec.Template = tmpl
			t.Spec.Sources = nil
			w.EnvCreate(t)
			w.c19Pass("template-output", shape, "tm", KOT("t1"))
		}
		_ = metav1.Now
		return 0
	}
}

func sortedStr[V any](m map[string]V) []string {
	out := make([]string, 0, len(m))
	for k := range m {
		out = append(out, k)
	}
	for i := range out {
		for j := i + 1; j < len(out); j++ {
			if out[j] < out[i] {
				out[i], out[j] = out[j], out[i]
			}
		}
	}
	return out
}
