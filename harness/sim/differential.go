package verifsim

import (
	"flag"
	"fmt"

	metav1 "k8s.io/apimachinery/pkg/apis/meta/v1"
	"k8s.io/apimachinery/pkg/apis/meta/v1/unstructured"

	corev1alpha1 "package-operator.run/apis/core/v1alpha1"
)

// Differential drivers for C14 (inline vs. sliced) and C15 (local vs. delegated): the same staged
// scenario is run in its base form (reference) and in a variant; the variant's Quiesced event carries
// the reference end state, an owner-identity map (ObjectSetPhase -> its ObjectSet) and the kinds to ignore.

type variant struct {
	Deleg  map[string][]bool // per set, per phase: delegated (class default)
	Sliced map[string][]bool // per set, per phase: objects moved to an ObjectSlice
}

func (v variant) label() string {
	return fmt.Sprintf("deleg=%v sliced=%v", v.Deleg, v.Sliced)
}

type famSet struct {
	Name   string
	Phases [][]*unstructured.Unstructured
	Prev   []string
}

func diffFamily() []famSet {
	return []famSet{
		{Name: "a1", Phases: [][]*unstructured.Unstructured{{ConfigMap("cm1", "x"), Widget("w1", 1)}, {Widget("w2", 1), ConfigMap("cm2", "x")}}},
		{Name: "a2", Phases: [][]*unstructured.Unstructured{{ConfigMap("cm1", "y"), Widget("w1", 2)}, {ConfigMap("cm3", "x"), Widget("w2", 1)}}, Prev: []string{"a1"}},
	}
}

func (v variant) createSet(w *World, fs famSet) {
	var phases []PhaseSpec
	for j, objs := range fs.Phases {
		ps := PhaseSpec{Name: fmt.Sprintf("p%d", j+1)}
		if d := v.Deleg[fs.Name]; d != nil && d[j] {
			ps.Class = "default"
		}
		if s := v.Sliced[fs.Name]; s != nil && s[j] {
			sl := &corev1alpha1.ObjectSlice{ObjectMeta: metav1.ObjectMeta{Name: fmt.Sprintf("%s-sl%d", fs.Name, j+1), Namespace: NS}}
			sl.Objects = toPhases([]PhaseSpec{{Objects: objs}})[0].Objects
			w.EnvCreate(sl)
			ps.Slices = []string{sl.Name}
		} else {
			ps.Objects = objs
		}
		phases = append(phases, ps)
	}
	w.EnvCreate(NewObjectSet(fs.Name, phases, fs.Prev...))
}

func (v variant) staged(name string) StagedScenario {
	fam := diffFamily()
	return StagedScenario{Name: name, Stages: []func(*World){
		func(w *World) { v.createSet(w, fam[0]) },
		func(w *World) { v.createSet(w, fam[1]) },
		func(w *World) { w.EnvSetLifecycle(KOS("a1"), "Paused") },
		func(w *World) { w.EnvSetLifecycle(KOS("a1"), "Archived") },
		func(w *World) { w.EnvDelete(KOS("a2"), false) },
	}}
}

// runStagedCapture runs stage by stage and returns the digest after every stage.
func runStagedCapture(w *World, sc StagedScenario, label string, dist []disturbance, seed int64,
	refs [][]any, extra map[string]any) [][]any {
	w.AnnotationPhases = false
	w.Reset(sc.Name + "/" + label)
	sr := &stagedRunner{w: w, dist: dist, rng: newRng(seed)}
	var out [][]any
	for i, st := range sc.Stages {
		st(w)
		ok := sr.settle(60)
		if i == len(sc.Stages)-1 || refs != nil {
			sr2 := sr.dist
			sr.dist = nil
			ok = sr.settle(60) && ok
			sr.dist = sr2
		}
		state := w.StateDigest()
		out = append(out, state)
		args := map[string]any{"state": state, "dynRefs": w.Dyn.Refs(), "hasRef": false, "ref": []any{}, "calls": sr.calls, "fired": sr.fired, "stage": i}
		if refs != nil {
			args["hasRef"] = false // differential comparison uses diffRef (only selected kinds, mapped owners)
			args["diffRef"] = refs[i]
			for k, v := range extra {
				args[k] = v
			}
		}
		w.Emit(Event{Actor: "sim", Ev: "Quiesced", Key: "-", Res: map[bool]string{true: "ok", false: "diverged"}[ok], Args: args})
	}
	return out
}

func init() {
	extraDrivers["differential"] = func(w *World, _ *flag.FlagSet, a driverArgs) int {
		// -profile c14 | c15
		base := variant{}
		refs := runStagedCapture(w, base.staged("diff-base"), "reference", nil, 0, nil, nil)
		masks := [][]bool{{false, false}, {true, false}, {false, true}, {true, true}}
		var vars []variant
		for _, m1 := range masks {
			for _, m2 := range masks {
				if !m1[0] && !m1[1] && !m2[0] && !m2[1] {
					continue
				}
				if a.profile == "c15" {
					vars = append(vars, variant{Deleg: map[string][]bool{"a1": m1, "a2": m2}})
				} else {
					vars = append(vars, variant{Sliced: map[string][]bool{"a1": m1, "a2": m2}})
				}
			}
		}
		ownerMap := map[string]any{}
		for _, s := range []string{"a1", "a2"} {
			for _, p := range []string{"p1", "p2"} {
				ownerMap["ObjectSetPhase/"+s+"-"+p] = "ObjectSet/" + s
			}
		}
		extra := map[string]any{"diff": a.profile, "ownerMap": ownerMap}
		job := 0
		for _, v := range vars {
			job++
			if job%a.shards != a.shard {
				continue
			}
			runStagedCapture(w, v.staged("diff-"+a.profile), v.label(), nil, 0, refs, extra)
		}
		if a.profile == "c14" {
			// slices of DELEGATED phases: the ObjectSetPhase object carries the objects of the slices; reference = the
			// same delegation with the objects inline
			for _, d := range []map[string][]bool{{"a1": {true, false}, "a2": {false, true}}, {"a1": {true, true}, "a2": {true, true}}} {
				var drefs [][]any
				for _, m1 := range masks {
					for _, m2 := range masks {
						if !m1[0] && !m1[1] && !m2[0] && !m2[1] {
							continue
						}
						job++
						if job%a.shards != a.shard {
							continue
						}
						if drefs == nil {
							drefs = runStagedCapture(w, variant{Deleg: d}.staged("diff-base-deleg"), "reference "+variant{Deleg: d}.label(), nil, 0, nil, nil)
						}
						v := variant{Deleg: d, Sliced: map[string][]bool{"a1": m1, "a2": m2}}
						runStagedCapture(w, v.staged("diff-"+a.profile), v.label(), nil, 0, drefs, extra)
					}
				}
			}
		}
		return 0
	}
}
