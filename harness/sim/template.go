package verifsim

func (w *World) buildTemplateController() {}
