package verifsim

import (
	"context"
	"flag"
	"fmt"
	"math/rand"
	"strings"
	"time"

	"github.com/go-logr/logr"
	metav1 "k8s.io/apimachinery/pkg/apis/meta/v1"
	"k8s.io/apimachinery/pkg/apis/meta/v1/unstructured"
	"k8s.io/client-go/util/workqueue"
	"sigs.k8s.io/controller-runtime/pkg/event"
	"sigs.k8s.io/controller-runtime/pkg/reconcile"

	corev1alpha1 "package-operator.run/apis/core/v1alpha1"
	"package-operator.run/internal/controllers/objecttemplate"
	"package-operator.run/internal/dynamiccache"
)

// ObjectTemplate controller wiring (C18): the real GenericObjectTemplateController; reconciles are
// triggered the way the manager would — through the real EnqueueWatchingObjects handler for changes of
// cache-labelled objects of watched kinds, and through RequeueAfter timers.

func (w *World) buildTemplateController() {
	c := objecttemplate.NewObjectTemplateController(w.Client, w.Uncached, logr.Discard(), w.Dyn, w.Scheme, w.Store.RESTMapper(),
		objecttemplate.ControllerConfig{OptionalResourceRetryInterval: 30 * time.Second, ResourceRetryInterval: 30 * time.Second})
	c.SetEnvironment(w.theEnvironment())
	w.Ctrls["tm"] = c
}

var KOT = func(name string) Key { return Key{pkoGroup, "ObjectTemplate", NS, name} }

const tmplOK = `apiVersion: v1
kind: ConfigMap
metadata:
  name: out
data:
  a: {{ .config.a | quote }}
  b: {{ if hasKey .config "b" }}{{ .config.b | quote }}{{ else }}"unset"{{ end }}
`

const tmplOK2 = `apiVersion: v1
kind: ConfigMap
metadata:
  name: out
data:
  a: {{ .config.a | quote }}
  b: {{ if hasKey .config "b" }}{{ .config.b | quote }}{{ else }}"unset"{{ end }}
  c: "two"
`

// the rendered object depends on the environment of the template's namespace (HyperShift hosted cluster)
const tmplEnvLine = `  h: {{ if hasKey .environment "hyperShift" }}{{ with .environment.hyperShift.hostedCluster }}{{ .metadata.name | quote }}{{ else }}"none"{{ end }}{{ else }}"nohs"{{ end }}
`

const tmplBad = `apiVersion: v1
kind: ConfigMap
metadata:
  name: out
data:
  a: {{ .config.a | nosuchfunc }}
`

const tmplOtherNS = `apiVersion: v1
kind: ConfigMap
metadata:
  name: out
  namespace: other
data:
  a: {{ .config.a | quote }}
  b: "unset"
`

// template classes: ok | ok2 (upper-cases a) | bad (unparsable) | targetOtherNS | sourceOtherNS | optionalFirst
func newObjectTemplate(class string) *corev1alpha1.ObjectTemplate {
	t := &corev1alpha1.ObjectTemplate{ObjectMeta: metav1.ObjectMeta{Name: "t1", Namespace: NS}}
	srcA := corev1alpha1.ObjectTemplateSource{APIVersion: "v1", Kind: "ConfigMap", Name: "src-a",
		Items: []corev1alpha1.ObjectTemplateSourceItem{{Key: ".data.a", Destination: ".a"}}}
	srcB := corev1alpha1.ObjectTemplateSource{APIVersion: "v1", Kind: "ConfigMap", Name: "src-b", Optional: true,
		Items: []corev1alpha1.ObjectTemplateSourceItem{{Key: ".data.b", Destination: ".b"}}}
	t.Spec.Sources = []corev1alpha1.ObjectTemplateSource{srcA, srcB}
	t.Spec.Template = tmplOK
	switch class {
	case "ok2":
		t.Spec.Template = tmplOK2
	case "bad":
		t.Spec.Template = tmplBad
	case "targetOtherNS":
		t.Spec.Template = tmplOtherNS
	case "sourceOtherNS":
		t.Spec.Sources[0].Namespace = "other"
	case "optionalFirst":
		t.Spec.Sources = []corev1alpha1.ObjectTemplateSource{srcB, srcA}
	case "envHosted":
		t.Spec.Template = tmplOK + tmplEnvLine
	case "clusterSrc":
		// the required source is an object of a CLUSTER-SCOPED kind (no namespace given): outside a namespaced template's reach
		t.Spec.Sources[0].APIVersion = "example.verif/v1"
		t.Spec.Sources[0].Kind = "ClusterThing"
		t.Spec.Sources[0].Items = []corev1alpha1.ObjectTemplateSourceItem{{Key: ".spec.a", Destination: ".a"}}
	case "secretSrc":
		// the required source is a Secret: a kind the template's own target watch does not cover
		t.Spec.Sources[0].Kind = "Secret"
	case "widgetSrc":
		// the required source is an object with a generation; the value is read from its STATUS (no generation bump on change)
		t.Spec.Sources[0].APIVersion = "example.verif/v1"
		t.Spec.Sources[0].Kind = "Widget"
		t.Spec.Sources[0].Items = []corev1alpha1.ObjectTemplateSourceItem{{Key: ".status.a", Destination: ".a"}}
	}
	return t
}

// neighbourTemplate: another ObjectTemplate (t0) that already watches the kinds t1's sources have
// (Secret src-z -> ConfigMap out0). It is never edited and never checked; it only shares the dynamic cache.
func neighbourTemplate() *corev1alpha1.ObjectTemplate {
	t := &corev1alpha1.ObjectTemplate{ObjectMeta: metav1.ObjectMeta{Name: "t0", Namespace: NS}}
	t.Spec.Sources = []corev1alpha1.ObjectTemplateSource{{APIVersion: "v1", Kind: "Secret", Name: "src-z",
		Items: []corev1alpha1.ObjectTemplateSourceItem{{Key: ".data.z", Destination: ".a"}}}}
	t.Spec.Template = strings.ReplaceAll(tmplOK, "name: out", "name: out0")
	return t
}

// hostedTemplate: an ObjectTemplate in the hosted cluster's namespace (no sources); its output carries the hosted
// cluster's name. It shares the controller - and its environment sink - with t1.
var (
	KTH   = Key{pkoGroup, "ObjectTemplate", HostedNS, "th"}
	KOutH = Key{"", "ConfigMap", HostedNS, "out-h"}
)

func hostedTemplate() *corev1alpha1.ObjectTemplate {
	t := &corev1alpha1.ObjectTemplate{ObjectMeta: metav1.ObjectMeta{Name: "th", Namespace: HostedNS}}
	t.Spec.Template = "apiVersion: v1\nkind: ConfigMap\nmetadata:\n  name: out-h\ndata:\n" + tmplEnvLine
	return t
}

func srcAKey(class string) Key {
	if class == "clusterSrc" {
		return Key{"example.verif", "ClusterThing", "", "src-a"}
	}
	if class == "secretSrc" {
		return Key{"", "Secret", NS, "src-a"}
	}
	if class == "widgetSrc" {
		return Key{"example.verif", "Widget", NS, "src-a"}
	}
	return KCM("src-a")
}

func srcAWith(class, val string) *unstructured.Unstructured {
	if class == "clusterSrc" {
		u := Obj(gvkClusterThing, "", "src-a")
		u.Object["spec"] = map[string]any{"size": int64(1), "a": val}
		return u
	}
	if class == "widgetSrc" {
		u := Widget("src-a", 1)
		u.SetNamespace(NS)
		u.Object["status"] = map[string]any{"a": val}
		return u
	}
	if class == "secretSrc" {
		u := Obj(gvkSecret, NS, "src-a")
		u.Object["data"] = map[string]any{"a": val}
		return u
	}
	return cmWith("src-a", "a", val)
}

type tmWorld struct {
	w       *World
	pending map[Key]bool // templates enqueued by a trigger
	timers  map[Key]bool // templates with a pending RequeueAfter timer
	handler *dynamiccache.EnqueueWatchingObjects
	class   string
}

// trigger feeds a change of object k through the real EnqueueWatchingObjects handler (only objects that
// carry the cache label are visible to the dynamic cache's informers).
func (tw *tmWorld) trigger(before, after map[string]any) {
	vis := func(m map[string]any) *unstructured.Unstructured {
		if m == nil {
			return nil
		}
		u := &unstructured.Unstructured{Object: m}
		if u.GetLabels()[cacheLbl] != "True" {
			return nil
		}
		return u
	}
	b, a := vis(before), vis(after)
	if b == nil && a == nil {
		return
	}
	if b != nil && a != nil && b.GetResourceVersion() == a.GetResourceVersion() && b.GetUID() == a.GetUID() {
		return // unchanged: no watch event
	}
	q := workqueue.NewTypedRateLimitingQueue(workqueue.DefaultTypedControllerRateLimiter[reconcile.Request]())
	ctx := context.Background()
	switch {
	case b == nil:
		tw.handler.Create(ctx, event.CreateEvent{Object: a}, q)
	case a == nil:
		tw.handler.Delete(ctx, event.DeleteEvent{Object: b}, q)
	default:
		tw.handler.Update(ctx, event.UpdateEvent{ObjectOld: b, ObjectNew: a}, q)
	}
	for q.Len() > 0 {
		r, _ := q.Get()
		tw.pending[Key{pkoGroup, "ObjectTemplate", r.Namespace, r.Name}] = true
		q.Done(r)
	}
	q.ShutDown()
}

// env runs an environment action on key k and feeds the resulting change to the trigger logic.
func (tw *tmWorld) env(k Key, f func()) {
	before := tw.w.Store.Snapshot(k)
	f()
	after := tw.w.Store.Snapshot(k)
	tw.trigger(before, after)
	if k.Kind == "ObjectTemplate" {
		tw.pending[k] = true // For(objectTemplate): the template's own changes enqueue it
	}
}

func (tw *tmWorld) runPass(k Key) {
	w := tw.w
	delete(tw.pending, k)
	delete(tw.timers, k)
	// snapshot of every object the pass may touch, to feed its own writes back as triggers
	keys := []Key{KCM("src-a"), KCM("src-b"), KCM("out"), {"", "ConfigMap", "other", "src-a"}, {"", "ConfigMap", "other", "out"},
		{"", "Secret", NS, "src-a"}, {"", "Secret", NS, "src-z"}, KCM("out0"), {"example.verif", "Widget", NS, "src-a"}, KOutH,
		{"example.verif", "ClusterThing", "", "src-a"}}
	before := map[Key]map[string]any{}
	for _, x := range keys {
		before[x] = w.Store.Snapshot(x)
	}
	p := w.RunPass("tm", k)
	for _, x := range keys {
		tw.trigger(before[x], w.Store.Snapshot(x))
	}
	if p.Result.RequeueAfter > 0 || p.Err != nil {
		tw.timers[k] = true
	}
	// For(objectTemplate) has no generation predicate: its own status / finalizer writes enqueue it again
	if w.Store.Snapshot(k) != nil && p.Writes > 0 {
		tw.pending[k] = true
	}
}

// settle processes triggers and timers until nothing changes (timers of missing optional sources keep firing:
// two consecutive write-free timer rounds end the loop).
func (tw *tmWorld) settle() {
	quiet := 0
	for i := 0; i < 40 && quiet < 2; i++ {
		before := tw.w.Store.rvSeq
		for k := range tw.pending {
			if tw.w.Store.Snapshot(k) != nil {
				tw.runPass(k)
			} else {
				delete(tw.pending, k)
			}
		}
		if len(tw.pending) == 0 {
			for k := range tw.timers {
				if tw.w.Store.Snapshot(k) != nil {
					tw.runPass(k)
				} else {
					delete(tw.timers, k)
				}
			}
		}
		if tw.w.Store.rvSeq == before && len(tw.pending) == 0 {
			quiet++
		} else {
			quiet = 0
		}
	}
}

func (tw *tmWorld) check(label string) {
	w := tw.w
	w.Emit(Event{Actor: "sim", Ev: "C18Check", Key: KOT("t1").String(), Args: map[string]any{"label": label, "class": tw.class,
		"dynRefs": w.Dyn.Refs(), "templateRefs": countTemplateRefs(w), "pendingTimers": len(tw.timers)}})
}

func cmWith(name, key, val string) *unstructured.Unstructured {
	u := Obj(gvkConfigMap, NS, name)
	u.Object["data"] = map[string]any{key: val}
	return u
}

func init() {
	extraDrivers["template-walk"] = func(w *World, _ *flag.FlagSet, a driverArgs) int {
		classes := []string{"ok", "ok", "ok2", "optionalFirst", "bad", "targetOtherNS", "sourceOtherNS", "secretSrc", "secretSrc", "widgetSrc", "widgetSrc", "envHosted", "envHosted", "clusterSrc"}
		for i := 0; i < a.n; i++ {
			if i%a.shards != a.shard {
				continue
			}
			seed := a.seed*100003 + int64(i)
			rng := rand.New(rand.NewSource(seed))
			class := classes[i%len(classes)]
			w.AnnotationPhases = false
			w.Reset(fmt.Sprintf("template-%s/seed=%d", class, seed))
			tw := &tmWorld{w: w, pending: map[Key]bool{}, timers: map[Key]bool{}, class: class}
			tw.handler = dynamiccache.NewEnqueueWatchingObjects(w.Dyn, &corev1alpha1.ObjectTemplate{}, w.Scheme)
			w.Emit(Event{Actor: "sim", Ev: "Row", Key: "-", Args: map[string]any{"row": i, "class": class, "classes": map[string]any{}, "flavour": "tm", "hasDup": false}})
			if class == "envHosted" {
				w.EnableHyperShift()
				tw.handler = dynamiccache.NewEnqueueWatchingObjects(w.Dyn, &corev1alpha1.ObjectTemplate{}, w.Scheme)
				if rng.Intn(2) == 0 {
					tw.env(KTH, func() { w.EnvCreate(hostedTemplate()) })
					tw.settle()
				}
			}
			// another template that shares the dynamic cache and already watches Secrets and ConfigMaps
			if class == "secretSrc" || rng.Intn(3) == 0 {
				z := Obj(gvkSecret, NS, "src-z")
				z.Object["data"] = map[string]any{"z": "z0"}
				tw.env(Key{"", "Secret", NS, "src-z"}, func() { w.EnvCreate(z) })
				tw.env(KOT("t0"), func() { w.EnvCreate(neighbourTemplate()) })
				tw.settle()
			}
			// some sources may pre-exist
			if rng.Intn(2) == 0 {
				tw.env(srcAKey(class), func() { w.EnvCreate(srcAWith(class, "a0")) })
			}
			if class == "sourceOtherNS" {
				u := cmWith("src-a", "a", "foreign")
				u.SetNamespace("other")
				w.EnvCreate(u)
			}
			tw.env(KOT("t1"), func() { w.EnvCreate(newObjectTemplate(class)) })
			tw.settle()
			tw.check("initial")
			vals := 0
			for step := 0; step < a.steps; step++ {
				vals++
				v := fmt.Sprintf("v%d", vals)
				switch rng.Intn(9) {
				case 0, 1:
					k := srcAKey(class)
					if w.Store.Snapshot(k) == nil {
						tw.env(k, func() { w.EnvCreate(srcAWith(class, v)) })
					} else {
						tw.env(k, func() {
							w.EnvMutate("EnvEdit", k, map[string]any{"tag": v}, func(m map[string]any) {
								if class == "widgetSrc" {
									m["status"] = map[string]any{"a": v} // status only: the generation does not move
								} else if class == "clusterSrc" {
									m["spec"] = map[string]any{"size": int64(1), "a": v}
								} else {
									m["data"] = map[string]any{"a": v}
								}
							})
						})
					}
				case 2, 3:
					k := KCM("src-b")
					if w.Store.Snapshot(k) == nil {
						tw.env(k, func() { w.EnvCreate(cmWith("src-b", "b", v)) })
					} else {
						tw.env(k, func() {
							w.EnvMutate("EnvEdit", k, map[string]any{"tag": v}, func(m map[string]any) { m["data"] = map[string]any{"b": v} })
						})
					}
				case 4:
					k := []Key{srcAKey(class), KCM("src-b")}[rng.Intn(2)]
					tw.env(k, func() { w.EnvDelete(k, false) })
				case 5:
					// somebody edits or deletes the output
					k := KCM("out")
					if rng.Intn(2) == 0 {
						tw.env(k, func() { w.EnvDelete(k, false) })
					} else {
						tw.env(k, func() {
							w.EnvMutate("EnvEdit", k, map[string]any{"tag": v}, func(m map[string]any) { m["data"] = map[string]any{"a": "tampered", "b": "tampered"} })
						})
					}
				case 6:
					// the user switches the template text
					if class == "ok" || class == "ok2" {
						tw.env(KOT("t1"), func() {
							w.EnvMutate("EnvSetTemplate", KOT("t1"), map[string]any{"variant": 0}, func(m map[string]any) {
								spec := nestedMap(m, "spec")
								if spec["template"] == tmplOK {
									spec["template"] = tmplOK2
								} else {
									spec["template"] = tmplOK
								}
							})
						})
					}
				case 8:
					// the template is deleted (its watches are freed - when it was the only watcher the informers stop) and
					// created again: the new one must track its sources like the first
					if class != "envHosted" && rng.Intn(2) == 0 && w.Store.Snapshot(KOT("t1")) != nil {
						tw.env(KOT("t1"), func() { w.EnvDelete(KOT("t1"), false) })
						tw.settle()
						tw.check("deleted")
						// the cluster's garbage collector removes the output of the deleted template - before or after the new
						// template (same name, new uid) has been reconciled for the first time
						gc := func() { tw.env(KCM("out"), func() { w.EnvGC() }) }
						if rng.Intn(2) == 0 {
							gc()
						}
						tw.env(KOT("t1"), func() { w.EnvCreate(newObjectTemplate(class)) })
						tw.settle()
						gc()
						tw.settle()
						tw.check("mid")
					}
					// the template in the hosted cluster's namespace appears, is edited (reconciled again) or goes away
					if class == "envHosted" {
						switch {
						case w.Store.Snapshot(KTH) == nil:
							tw.env(KTH, func() { w.EnvCreate(hostedTemplate()) })
						case rng.Intn(3) == 0:
							tw.env(KTH, func() { w.EnvDelete(KTH, false) })
						default:
							tw.env(KTH, func() {
								w.EnvMutate("EnvEdit", KTH, map[string]any{"tag": v}, func(m map[string]any) {
									metaOf(m)["annotations"] = map[string]any{"touch": v}
								})
							})
						}
					}
				case 7:
					if rng.Intn(4) == 0 {
						w.Restart()
						tw.pending[KOT("t1")] = true // a restarted manager reconciles every object once
						if w.Store.Snapshot(KOT("t0")) != nil {
							tw.pending[KOT("t0")] = true
						}
						if w.Store.Snapshot(KTH) != nil {
							tw.pending[KTH] = true
						}
					}
				}
				if rng.Intn(2) == 0 {
					tw.settle()
					tw.check("mid")
				}
			}
			tw.settle()
			tw.check("final")
			// deletion releases the watches
			tw.env(KOT("t1"), func() { w.EnvDelete(KOT("t1"), false) })
			tw.settle()
			tw.check("deleted")
		}
		return 0
	}
}

func countTemplateRefs(w *World) int {
	n := 0
	for _, r := range w.Dyn.Refs() {
		if strings.Contains(r, "<- ObjectTemplate/"+NS+"/t1#") {
			n++
		}
	}
	return n
}
