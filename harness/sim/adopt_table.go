package verifsim

import (
	"encoding/json"
	"fmt"
	"math/rand"
	"strconv"

	metav1 "k8s.io/apimachinery/pkg/apis/meta/v1"
	"k8s.io/apimachinery/pkg/apis/meta/v1/unstructured"
	"k8s.io/apimachinery/pkg/types"

	corev1alpha1 "package-operator.run/apis/core/v1alpha1"
)

// AdoptRow is one row of the C01 decision table (the full product of the statement's quantifier).
type AdoptRow struct {
	Annotation bool   // owner strategy: annotation (ObjectSetPhase, multi-cluster flavour) or native (ObjectSet)
	CP         string // collision protection
	Forced     bool   // PKO_FORCE_ADOPTION
	PkoLabel   bool   // object carries package label "package-operator"
	Owners     []ownerSlot
	RevClass   int // -1 absent, 0 lower, 1 equal, 2 higher
	Prev       int // 0 none, 1 [a1], 2 [a1, gone]
	ORev       int64
	Cached     bool // object carries the dynamic-cache label
}

type ownerSlot struct {
	Who  string // self | prev | prevRemote | other | foreign
	Ctrl bool
}

// AdoptRows enumerates the table.
func AdoptRows() []AdoptRow {
	whos := []string{"self", "prev", "prevRemote", "other", "foreign"}
	var ownerLists [][]ownerSlot
	ownerLists = append(ownerLists, nil)
	for _, w := range whos {
		for _, c := range []bool{false, true} {
			ownerLists = append(ownerLists, []ownerSlot{{w, c}})
		}
	}
	for i := 0; i < len(whos); i++ {
		for j := i + 1; j < len(whos); j++ {
			for _, c1 := range []bool{false, true} {
				for _, c2 := range []bool{false, true} {
					ownerLists = append(ownerLists, []ownerSlot{{whos[i], c1}, {whos[j], c2}})
				}
			}
		}
	}
	var rows []AdoptRow
	for _, ann := range []bool{false, true} {
		for _, cp := range []string{"Prevent", "IfNoController", "None"} {
			for _, forced := range []bool{false, true} {
				for _, lbl := range []bool{false, true} {
					for _, ol := range ownerLists {
						for rc := -1; rc <= 2; rc++ {
							for prev := 0; prev <= 2; prev++ {
								for _, orev := range []int64{2, 3} {
									for _, cached := range []bool{true, false} {
										rows = append(rows, AdoptRow{ann, cp, forced, lbl, ol, rc, prev, orev, cached})
									}
								}
							}
						}
					}
				}
			}
		}
	}
	return rows
}

// AdoptTable runs n rows (n<=0: all) chosen by seed through the real controllers.
func AdoptTable(w *World, seed int64, n int, shard, shards int) {
	rows := AdoptRows()
	idx := make([]int, len(rows))
	for i := range idx {
		idx[i] = i
	}
	if n > 0 && n < len(rows) {
		rng := rand.New(rand.NewSource(seed))
		rng.Shuffle(len(idx), func(i, j int) { idx[i], idx[j] = idx[j], idx[i] })
		idx = idx[:n]
	}
	for c, i := range idx {
		if c%shards != shard {
			continue
		}
		runAdoptRow(w, i, rows[i])
	}
	w.SetForceAdoption(false)
}

func runAdoptRow(w *World, i int, r AdoptRow) {
	w.AnnotationPhases = r.Annotation
	rowJSON, _ := json.Marshal(r)
	w.Reset(fmt.Sprintf("adopt-row-%d %s", i, rowJSON))
	w.SetForceAdoption(r.Forced)

	// previous revision a1 (with one remote phase a1-px), an unrelated set zz, a stranger
	a1 := NewObjectSet("a1", []PhaseSpec{{Name: "p1", Objects: cmObjs("unrelated1")}})
	a1.Status.Revision = r.ORev - 1
	a1.Status.RemotePhases = []corev1alpha1.RemotePhaseReference{{Name: "a1-px", UID: "uid-a1-px"}}
	w.EnvCreate(a1)
	zz := NewObjectSet("zz", []PhaseSpec{{Name: "p1", Objects: cmObjs("unrelated2")}})
	zz.Status.Revision = 1
	w.EnvCreate(zz)

	var prevNames []string
	switch r.Prev {
	case 1:
		prevNames = []string{"a1"}
	case 2:
		prevNames = []string{"a1", "gone"}
	}
	cp := corev1alpha1.CollisionProtection(r.CP)
	var ownerKey Key
	var actor string
	if !r.Annotation {
		a2 := NewObjectSet("a2", []PhaseSpec{{Name: "p1", Objects: cmObjs("x"), CP: cp}}, prevNames...)
		a2.Status.Revision = r.ORev
		ownerKey = w.EnvCreate(a2)
		actor = "os"
	} else {
		ph := &corev1alpha1.ObjectSetPhase{ObjectMeta: metav1.ObjectMeta{Name: "a2-p1", Namespace: NS,
			Labels: map[string]string{corev1alpha1.ObjectSetPhaseClassLabel: "default"}}}
		ph.Spec.Revision = r.ORev
		ph.Spec.AvailabilityProbes = StdProbes()
		for _, p := range prevNames {
			ph.Spec.Previous = append(ph.Spec.Previous, corev1alpha1.PreviousRevisionReference{Name: p})
		}
		ph.Spec.Objects = toPhases([]PhaseSpec{{Name: "p1", Objects: cmObjs("x"), CP: cp}})[0].Objects
		ownerKey = w.EnvCreate(ph)
		actor = "ph"
	}
	uidOf := func(k Key) types.UID { return types.UID(getStr(metaOf(w.Store.Snapshot(k)), "uid")) }

	// the pre-existing object
	obj := ConfigMap("x", "preexisting")
	obj.SetNamespace(NS)
	lbl := map[string]string{}
	if r.Cached {
		lbl[cacheLbl] = "True"
	}
	if r.PkoLabel {
		lbl[pkgLbl] = "package-operator"
	}
	if len(lbl) > 0 {
		obj.SetLabels(lbl)
	}
	ann := map[string]string{}
	switch r.RevClass {
	case 0:
		ann[revAnn] = strconv.FormatInt(r.ORev-1, 10)
	case 1:
		ann[revAnn] = strconv.FormatInt(r.ORev, 10)
	case 2:
		ann[revAnn] = strconv.FormatInt(r.ORev+1, 10)
	}
	type ref struct {
		APIVersion string    `json:"apiVersion"`
		Kind       string    `json:"kind"`
		Name       string    `json:"name"`
		Namespace  string    `json:"namespace"`
		UID        types.UID `json:"uid"`
		Controller *bool     `json:"controller,omitempty"`
	}
	var refs []ref
	for _, s := range r.Owners {
		var x ref
		pkoAV := corev1alpha1.GroupVersion.String()
		switch s.Who {
		case "self":
			x = ref{pkoAV, ownerKey.Kind, ownerKey.Name, NS, uidOf(ownerKey), nil}
		case "prev":
			x = ref{pkoAV, "ObjectSet", "a1", NS, uidOf(KOS("a1")), nil}
		case "prevRemote":
			x = ref{pkoAV, "ObjectSetPhase", "a1-px", NS, "uid-a1-px", nil}
		case "other":
			x = ref{pkoAV, "ObjectSet", "zz", NS, uidOf(KOS("zz")), nil}
		case "foreign":
			x = ref{"v1", "ConfigMap", "stranger", NS, "foreign-uid", nil}
		}
		if s.Ctrl {
			t := true
			x.Controller = &t
		}
		refs = append(refs, x)
	}
	if r.Annotation {
		if len(refs) > 0 {
			b, _ := json.Marshal(refs)
			ann[ownersAnn] = string(b)
		}
	} else {
		var ors []metav1.OwnerReference
		for _, x := range refs {
			ors = append(ors, metav1.OwnerReference{APIVersion: x.APIVersion, Kind: x.Kind, Name: x.Name, UID: x.UID, Controller: x.Controller})
		}
		obj.SetOwnerReferences(ors)
	}
	if len(ann) > 0 {
		obj.SetAnnotations(ann)
	}
	w.EnvCreate(obj)
	before := w.Store.Snapshot(KCM("x"))

	w.RunPass(actor, ownerKey)
	w.RunPass(actor, ownerKey)
	after := w.Store.Snapshot(KCM("x"))
	w.Emit(Event{Actor: "sim", Ev: "Note", Key: "-", Args: map[string]any{"row": i,
		"touched": getStr(metaOf(before), "resourceVersion") != getStr(metaOf(after), "resourceVersion")}})
}

var _ = unstructured.Unstructured{}
