package verifsim

import (
	"context"
	"flag"
	"fmt"
	"math/rand"
	"sort"
	"strings"
	"text/template"

	"package-operator.run/internal/apis/manifests"
	"package-operator.run/internal/packages"
	"package-operator.run/internal/transform"
	"package-operator.run/internal/utils"
)

// C13: abstract packages (spec/Render.tla) are concretised into real package file sets and rendered k times
// in one process through the real loader / RenderPackageInstance / RenderObjectSetTemplateSpec / FNV hash.

// pool of files; index = position in the statement's path-then-document order ('/' sorts before every other byte)
var c13Pool = []string{"a.yaml", "b/x.yaml", "b.yaml", "c.yaml.gotmpl", "d/z.yml", "e.yaml.gotmpl"}

type c13Doc struct {
	Phase string `json:"phase"` // p1 | p2 | none (no phase annotation) | p1ws ("p1 " with a trailing blank) | unknown (p9): validation errors
	Cel   string `json:"cel"`   // none | true | false
}

type c13File struct {
	Idx  int      `json:"idx"` // 1-based index into the pool
	Docs []c13Doc `json:"docs"`
}

type c13Pkg struct {
	Files     []c13File `json:"files"`
	ExcludeD  bool      `json:"excludeD"`  // conditional path d/** with a false expression
	CrossRead bool      `json:"crossRead"` // template e reads the OUTPUT of template c with getFile
	Helper    bool      `json:"helper"`    // templates use a helper defined in _helpers.gotmpl via include
}

func c13Manifest(p c13Pkg) string {
	m := `apiVersion: manifests.package-operator.run/v1alpha1
kind: PackageManifest
metadata:
  name: c13pkg
spec:
  scopes:
  - Namespaced
  phases:
  - name: p1
  - name: p2
  availabilityProbes:
  - probes:
    - condition:
        type: Available
        status: "True"
    selector:
      kind:
        group: example.verif
        kind: Widget
`
	if p.ExcludeD {
		m += "  filter:\n    paths:\n    - glob: \"d/**\"\n      expression: \"false\"\n"
	}
	return m
}

func c13DocYAML(fileIdx, docIdx int, d c13Doc, tmpl bool, helper bool) string {
	if d.Phase == "empty" {
		// a document without content (only a comment): no object at all
		return "# intentionally left blank\n"
	}
	name := fmt.Sprintf("o%d-%d", fileIdx, docIdx)
	var b strings.Builder
	b.WriteString("apiVersion: v1\nkind: ConfigMap\nmetadata:\n")
	if tmpl && helper {
		fmt.Fprintf(&b, "  name: {{ include \"objname\" \"%s\" }}\n", name)
	} else {
		fmt.Fprintf(&b, "  name: %s\n", name)
	}
	b.WriteString("  annotations:\n    keep-me: \"yes\"\n    package-operator.run/collision-protection: IfNoController\n")
	switch d.Phase {
	case "none":
	case "p1ws":
		b.WriteString("    package-operator.run/phase: \"p1 \"\n")
	case "unknown":
		b.WriteString("    package-operator.run/phase: p9\n")
	default:
		fmt.Fprintf(&b, "    package-operator.run/phase: %s\n", d.Phase)
	}
	switch d.Cel {
	case "true":
		b.WriteString("    package-operator.run/condition: \"true\"\n")
	case "false":
		b.WriteString("    package-operator.run/condition: \"false\"\n")
	}
	if tmpl {
		b.WriteString("data:\n  pkg: {{ .package.metadata.name }}\n")
	} else {
		b.WriteString("data:\n  pkg: static\n")
	}
	return b.String()
}

func c13Files(p c13Pkg) packages.Files {
	fs := packages.Files{"manifest.yaml": []byte(c13Manifest(p))}
	if p.Helper {
		fs["_helpers.gotmpl"] = []byte("{{- define \"objname\" -}}{{ . }}{{- end -}}\n")
	}
	for _, f := range p.Files {
		path := c13Pool[f.Idx-1]
		tmpl := strings.HasSuffix(path, ".gotmpl")
		var docs []string
		for di, d := range f.Docs {
			docs = append(docs, c13DocYAML(f.Idx, di+1, d, tmpl, p.Helper))
		}
		content := strings.Join(docs, "---\n")
		if path == "e.yaml.gotmpl" && p.CrossRead {
			content += "---\n# {{ getFile \"c.yaml\" | sha256sum }}\n"
		}
		fs[path] = []byte(content)
	}
	return fs
}

type c13Phase struct {
	Name string  `json:"name"`
	Objs [][]int `json:"objs"` // (file index, document index) of every object, in order
}

type c13Outcome struct {
	Err    string     `json:"err"`
	Phases []c13Phase `json:"phases"`
	Hash   string     `json:"hash"`
	Labels bool       `json:"labels"` // every object carries the package labels
	Clean  bool       `json:"clean"`  // control annotations removed, other annotations kept, collision protection carried
}

func c13Render(p c13Pkg) c13Outcome {
	ctx := context.Background()
	out := c13Outcome{Phases: []c13Phase{}}
	pkg, err := packages.DefaultStructuralLoader.LoadComponent(ctx, &packages.RawPackage{Files: c13Files(p)}, "")
	if err != nil {
		out.Err = "load"
		return out
	}
	tctx := packages.PackageRenderContext{
		Package: manifests.TemplateContextPackage{TemplateContextObjectMeta: manifests.TemplateContextObjectMeta{Name: "inst", Namespace: NS}},
	}
	inst, err := packages.RenderPackageInstance(ctx, pkg, tctx, packages.DefaultPackageValidators, packages.DefaultObjectValidators)
	if err != nil {
		out.Err = "render"
		return out
	}
	spec := packages.RenderObjectSetTemplateSpec(inst)
	out.Hash = utils.ComputeFNV32Hash(spec, nil)
	out.Labels, out.Clean = true, true
	out.Phases = []c13Phase{}
	for _, ph := range spec.Phases {
		row := c13Phase{Name: ph.Name, Objs: [][]int{}}
		for _, o := range ph.Objects {
			var fi, di int
			fmt.Sscanf(o.Object.GetName(), "o%d-%d", &fi, &di)
			row.Objs = append(row.Objs, []int{fi, di})
			l := o.Object.GetLabels()
			if l["package-operator.run/package"] != "c13pkg" || l["package-operator.run/instance"] != "inst" {
				out.Labels = false
			}
			a := o.Object.GetAnnotations()
			for k := range a {
				if strings.HasPrefix(k, "package-operator.run/") {
					out.Clean = false
				}
			}
			if a["keep-me"] != "yes" || string(o.CollisionProtection) != "IfNoController" {
				out.Clean = false
			}
		}
		out.Phases = append(out.Phases, row)
	}
	return out
}

func c13Rows(seed int64, n int) []c13Pkg {
	var rows []c13Pkg
	docs := []c13Doc{{"p1", "none"}, {"p2", "none"}, {"p1", "true"}, {"p2", "false"}, {"p1", "false"}, {"none", "none"}}
	// exhaustive: every subset of the pool with one fixed doc pattern, both filter settings
	for mask := 1; mask < 1<<len(c13Pool); mask++ {
		for _, ex := range []bool{false, true} {
			var p c13Pkg
			p.ExcludeD, p.Helper = ex, mask%2 == 0
			for i := range c13Pool {
				if mask&(1<<i) != 0 {
					p.Files = append(p.Files, c13File{Idx: i + 1, Docs: []c13Doc{docs[(i+mask)%4], docs[(i*2+mask)%5]}})
				}
			}
			rows = append(rows, p)
		}
	}
	rng := rand.New(rand.NewSource(seed))
	for i := 0; i < n; i++ {
		var p c13Pkg
		p.ExcludeD, p.Helper, p.CrossRead = rng.Intn(3) == 0, rng.Intn(2) == 0, rng.Intn(6) == 0
		for fi := range c13Pool {
			if rng.Intn(2) == 0 {
				continue
			}
			f := c13File{Idx: fi + 1}
			for d := 0; d < 1+rng.Intn(3); d++ {
				dd := docs[rng.Intn(len(docs))]
				if dd.Phase == "none" {
					// mostly valid; the invalid ones: no annotation, a phase name with stray whitespace, an unknown phase
					dd.Phase = []string{"p2", "p2", "p2", "p2", "p2", "p2", "none", "p1ws", "unknown"}[rng.Intn(9)]
				}
				if d > 0 && rng.Intn(5) == 0 {
					dd = c13Doc{Phase: "empty", Cel: "none"} // an empty document right after a non-empty one
				}
				f.Docs = append(f.Docs, dd)
			}
			p.Files = append(p.Files, f)
		}
		if p.CrossRead {
			// needs both templates
			has := map[int]bool{}
			for _, f := range p.Files {
				has[f.Idx] = true
			}
			for _, idx := range []int{4, 6} {
				if !has[idx] {
					p.Files = append(p.Files, c13File{Idx: idx, Docs: []c13Doc{{"p1", "none"}}})
				}
			}
			sort.Slice(p.Files, func(i, j int) bool { return p.Files[i].Idx < p.Files[j].Idx })
		}
		if len(p.Files) > 0 {
			rows = append(rows, p)
		}
	}
	return rows
}

func init() {
	extraDrivers["render-table"] = func(w *World, _ *flag.FlagSet, a driverArgs) int {
		w.Emit(Event{Actor: "sim", Ev: "Reset", Key: "-", Args: map[string]any{"scenario": "render-table"}})
		// the function map templates can reach (Sprig allow list + file functions)
		fm := transform.SprigFuncs(template.New("x"))
		for k, v := range transform.FileFuncs(map[string][]byte{}) {
			fm[k] = v
		}
		names := []string{}
		for k := range fm {
			names = append(names, k)
		}
		sort.Strings(names)
		if a.shard == 0 {
			w.Emit(Event{Actor: "c13", Ev: "C13Funcs", Key: "-", Args: map[string]any{"funcs": names}})
		}
		repeats := a.steps
		for i, p := range c13Rows(a.seed, a.n) {
			if i%a.shards != a.shard {
				continue
			}
			if p.Files == nil {
				p.Files = []c13File{}
			}
			first := c13Render(p)
			distinct := 1
			for r := 1; r < repeats; r++ {
				o := c13Render(p)
				if fmt.Sprint(o) != fmt.Sprint(first) {
					distinct++
				}
			}
			w.Emit(Event{Actor: "c13", Ev: "C13Row", Key: "-", Args: map[string]any{"pkg": p, "out": first, "repeats": repeats, "differing": distinct - 1}})
		}
		return 0
	}
}
