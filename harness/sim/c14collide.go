package verifsim

import (
	"flag"
	"fmt"
	"sync"

	corev1alpha1 "package-operator.run/apis/core/v1alpha1"
	"package-operator.run/internal/packages"
	"package-operator.run/internal/utils"
)

// C14 "a colliding name is never reused for different content": slice names are <deployment>-FNV32(content, count),
// so two different single-object slice contents of one deployment can collide. The fixtures below carry such a
// pair: the rendered ConfigMaps cx-<collideA> and cx-<collideB> of Package p1 hash to the same slice name. The
// pair was found by birthday search over the real render pipeline and the real hash function; it is re-checked at
// start-up and searched again (≈1 min) when rendering or hashing details of the tree under test have changed.

var (
	collideA, collideB = "46695", "525460"
	collideOnce        sync.Once
)

const collideImage = "img/collide:v1"
const collidePairImage = "img/collidepair:v1"

func collideManifest() string {
	return manifestYAML("app", "  config:\n    openAPIV3Schema:\n      type: object\n      properties:\n        idx:\n          type: string\n          default: \"0\"\n")
}

func collideTemplate(n string) string {
	return "apiVersion: v1\nkind: ConfigMap\nmetadata:\n  name: cx-" + n + "\n  annotations:\n    package-operator.run/phase: p1\ndata:\n  v: x\n"
}

func collideFixtures() map[string]fixture {
	ensureCollision()
	return map[string]fixture{
		// one colliding object per revision: config n selects it (update A → B while A's slice still exists)
		collideImage: {"valid", packages.Files{
			"manifest.yaml": []byte(collideManifest()),
			"a.yaml.gotmpl": []byte(collideTemplate("{{ .config.idx }}")),
			"b.yaml":        []byte(widgetDoc("w1", "p2", 1)),
		}},
		// both colliding objects in one phase of one revision
		collidePairImage: {"valid", packages.Files{
			"manifest.yaml": []byte(manifestYAML("app", "")),
			"a.yaml":        []byte(collideTemplate(collideA) + "---\n" + collideTemplate(collideB)),
			"b.yaml":        []byte(widgetDoc("w1", "p2", 1)),
		}},
	}
}

func sliceHashOf(o corev1alpha1.ObjectSetObject) string {
	var zero int32
	return utils.ComputeFNV32Hash([]corev1alpha1.ObjectSetObject{o}, &zero)
}

// renderedCollideObject renders the collide image for Package p1 with config n and returns the phase-p1 object
// exactly as the deployer chunks it (EachObject: one object per slice).
func renderedCollideObject(n string) (corev1alpha1.ObjectSetObject, bool) {
	fx := fixture{"valid", packages.Files{
		"manifest.yaml": []byte(collideManifest()),
		"a.yaml.gotmpl": []byte(collideTemplate("{{ .config.idx }}")),
	}}
	p := NewPackage("p1", collideImage, map[string]any{"idx": n})
	spec, ok := renderPackageSpec(p, fx)
	if !ok || len(spec.Phases) == 0 || len(spec.Phases[0].Objects) != 1 {
		return corev1alpha1.ObjectSetObject{}, false
	}
	return spec.Phases[0].Objects[0], true
}

func ensureCollision() {
	collideOnce.Do(func() {
		a, ok1 := renderedCollideObject(collideA)
		b, ok2 := renderedCollideObject(collideB)
		if ok1 && ok2 && sliceHashOf(a) == sliceHashOf(b) {
			return
		}
		x, y, ok := searchCollision(5000000)
		if ok {
			collideA, collideB = x, y
		}
	})
}

// searchCollision: birthday search; the rendered object is computed once and only its name is varied.
func searchCollision(max int) (string, string, bool) {
	base, ok := renderedCollideObject("0")
	if !ok {
		return "", "", false
	}
	seen := map[string]int{}
	for i := 1; i < max; i++ {
		o := base.DeepCopy()
		o.Object.SetName(fmt.Sprintf("cx-%d", i))
		h := sliceHashOf(*o)
		if j, dup := seen[h]; dup {
			x, y := fmt.Sprint(j), fmt.Sprint(i)
			// confirm through the real render
			a, ok1 := renderedCollideObject(x)
			b, ok2 := renderedCollideObject(y)
			if ok1 && ok2 && sliceHashOf(a) == sliceHashOf(b) {
				return x, y, true
			}
		}
		seen[h] = i
	}
	return "", "", false
}

func init() {
	extraDrivers["c14-search"] = func(w *World, _ *flag.FlagSet, a driverArgs) int {
		x, y, ok := searchCollision(5000000)
		fmt.Println("collision:", x, y, ok)
		return 0
	}
}
