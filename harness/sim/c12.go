package verifsim

import (
	"context"
	"encoding/json"
	"errors"
	"flag"
	"fmt"
	"math/rand"
	"os"
	goruntime "runtime"
	"sort"
	"sync"
	"time"

	apierrors "k8s.io/apimachinery/pkg/api/errors"
	"k8s.io/apimachinery/pkg/apis/meta/v1/unstructured"
	"k8s.io/apimachinery/pkg/runtime"
	"k8s.io/apimachinery/pkg/runtime/schema"
	"k8s.io/apimachinery/pkg/types"
	"k8s.io/client-go/tools/cache"
	"k8s.io/client-go/util/workqueue"
	"sigs.k8s.io/controller-runtime/pkg/client"
	"sigs.k8s.io/controller-runtime/pkg/event"
	"sigs.k8s.io/controller-runtime/pkg/handler"
	"sigs.k8s.io/controller-runtime/pkg/reconcile"

	"package-operator.run/internal/dynamiccache"
)

// C12: the REAL dynamiccache.Cache with a scripted informer map. Every call that reaches the map
// (informer create / lookup / delete) is recorded while the cache holds its own lock.

type stubInformer struct {
	cache.SharedIndexInformer
	mu       sync.Mutex
	handlers int
}

func (s *stubInformer) AddEventHandler(cache.ResourceEventHandler) (cache.ResourceEventHandlerRegistration, error) {
	s.mu.Lock()
	defer s.mu.Unlock()
	s.handlers++
	return nil, nil
}
func (s *stubInformer) HasSynced() bool { return true }

type stubReader struct{}

func (stubReader) Get(context.Context, client.ObjectKey, client.Object, ...client.GetOption) error { return nil }
func (stubReader) List(context.Context, client.ObjectList, ...client.ListOption) error           { return nil }

type scriptedMap struct {
	mu        sync.Mutex
	informers map[schema.GroupVersionKind]*stubInformer
	slow      bool // stress: informer start/stop takes time (widens every window around informer-map calls)
	failNext  int // number of upcoming creations that fail
	failSync  bool // the failing creation is a sync timeout: the informer exists and runs, Get returns a Timeout error
	creates   int
	deletes   int
	failures  int
}

func (m *scriptedMap) pause() {
	if m.slow {
		time.Sleep(30 * time.Microsecond)
		goruntime.Gosched()
	}
}

func (m *scriptedMap) Get(_ context.Context, gvk schema.GroupVersionKind, _ runtime.Object) (cache.SharedIndexInformer, client.Reader, error) {
	m.pause()
	m.mu.Lock()
	defer m.mu.Unlock()
	if inf, ok := m.informers[gvk]; ok {
		return inf, stubReader{}, nil
	}
	if m.failNext > 0 {
		m.failNext--
		m.failures++
		if m.failSync {
			// like InformerMap.Get when WaitForCacheSync gives up: the informer stays in the map
			m.informers[gvk] = &stubInformer{}
			m.creates++
			return nil, nil, apierrors.NewTimeoutError("scripted: failed waiting for Informer to sync", 0)
		}
		return nil, nil, errors.New("scripted informer start-up failure")
	}
	inf := &stubInformer{}
	m.informers[gvk] = inf
	m.creates++
	return inf, stubReader{}, nil
}

func (m *scriptedMap) Delete(_ context.Context, gvk schema.GroupVersionKind) error {
	m.pause()
	m.mu.Lock()
	defer m.mu.Unlock()
	if _, ok := m.informers[gvk]; ok {
		m.deletes++
	}
	delete(m.informers, gvk)
	return nil
}

type nopHandler struct{}

func (nopHandler) Create(context.Context, event.CreateEvent, workqueue.TypedRateLimitingInterface[reconcile.Request])   {}
func (nopHandler) Update(context.Context, event.UpdateEvent, workqueue.TypedRateLimitingInterface[reconcile.Request])   {}
func (nopHandler) Delete(context.Context, event.DeleteEvent, workqueue.TypedRateLimitingInterface[reconcile.Request])   {}
func (nopHandler) Generic(context.Context, event.GenericEvent, workqueue.TypedRateLimitingInterface[reconcile.Request]) {}

var _ handler.EventHandler = nopHandler{}

type c12World struct {
	c      *dynamiccache.Cache
	m      *scriptedMap
	scheme *runtime.Scheme
	kinds  map[string]schema.GroupVersionKind
	nh     int
}

func newC12World(scheme *runtime.Scheme, nHandlers int) *c12World {
	m := &scriptedMap{informers: map[schema.GroupVersionKind]*stubInformer{}}
	c := dynamiccache.NewVerifCache(scheme, m)
	for i := 0; i < nHandlers; i++ {
		src := c.Source(nopHandler{})
		must(src.Start(context.Background(), nil))
	}
	must(c.Start(context.Background()))
	return &c12World{c: c, m: m, scheme: scheme, nh: nHandlers, kinds: map[string]schema.GroupVersionKind{
		"k1": gvkConfigMap, "k2": gvkSecret, "k3": gvkWidget}}
}

func c12Owner(name string) client.Object {
	u := &unstructured.Unstructured{}
	u.SetGroupVersionKind(schema.GroupVersionKind{Group: pkoGroup, Version: "v1alpha1", Kind: "ObjectSet"})
	u.SetNamespace(NS)
	u.SetName(name)
	u.SetUID(types.UID("uid-" + name))
	return u
}

func (cw *c12World) obj(kind string) *unstructured.Unstructured {
	u := &unstructured.Unstructured{}
	u.SetGroupVersionKind(cw.kinds[kind])
	return u
}

// abstract state: refs per kind, running informers, informers with all handlers attached
func (cw *c12World) state() map[string]any {
	refs := map[string]any{}
	kinds := make([]string, 0)
	for k := range cw.kinds {
		kinds = append(kinds, k)
	}
	sort.Strings(kinds)
	running, attached := []string{}, []string{}
	cw.m.mu.Lock()
	for _, k := range kinds {
		if inf, ok := cw.m.informers[cw.kinds[k]]; ok {
			running = append(running, k)
			inf.mu.Lock()
			if inf.handlers >= cw.nh {
				attached = append(attached, k)
			}
			inf.mu.Unlock()
		}
	}
	cw.m.mu.Unlock()
	for _, k := range kinds {
		os := []string{}
		for _, o := range cw.c.OwnersForGKV(cw.kinds[k]) {
			os = append(os, o.Name)
		}
		sort.Strings(os)
		refs[k] = os
	}
	return map[string]any{"refs": refs, "running": running, "attached": attached}
}

type c12Op struct {
	Op    string `json:"op"` // Watch | Free | Get | List | Owners
	Owner string `json:"owner"`
	Kind  string `json:"kind"`
	Fail  string `json:"fail"` // how the next informer start-up fails: none | create | sync
}

func (cw *c12World) apply(op c12Op) (res string) {
	ctx := context.Background()
	if op.Fail == "create" || op.Fail == "sync" {
		cw.m.mu.Lock()
		cw.m.failNext = 1
		cw.m.failSync = op.Fail == "sync"
		cw.m.mu.Unlock()
	}
	var err error
	switch op.Op {
	case "Watch":
		err = cw.c.Watch(ctx, c12Owner(op.Owner), cw.obj(op.Kind))
	case "Free":
		err = cw.c.Free(ctx, c12Owner(op.Owner))
	case "Get":
		err = cw.c.Get(ctx, client.ObjectKey{Namespace: NS, Name: "x"}, cw.obj(op.Kind))
	case "List":
		l := &unstructured.UnstructuredList{}
		gvk := cw.kinds[op.Kind]
		gvk.Kind += "List"
		l.SetGroupVersionKind(gvk)
		err = cw.c.List(ctx, l)
	case "Owners":
		cw.c.OwnersForGKV(cw.kinds[op.Kind])
	}
	cw.m.mu.Lock()
	cw.m.failNext = 0
	cw.m.mu.Unlock()
	var nse *dynamiccache.CacheNotStartedError
	switch {
	case err == nil:
		return "ok"
	case errors.As(err, &nse):
		return "NotStarted"
	}
	return "Error"
}

func emitC12(w *World, ev string, args map[string]any) {
	w.Emit(Event{Actor: "c12", Ev: ev, Key: "-", Args: args})
}

func init() {
	// c12-seq <ops.json>: TLC-generated operation sequences, executed sequentially on the real cache
	extraDrivers["c12-seq"] = func(w *World, fs *flag.FlagSet, a driverArgs) int {
		var seqs [][]c12Op
		if len(fs.Args()) == 1 {
			b, err := os.ReadFile(fs.Args()[0])
			must(err)
			must(json.Unmarshal(b, &seqs))
		} else if a.mode == "enum" {
			// every operation sequence of length a.steps over 2 owners x 2 kinds x failure flag
			var alpha []c12Op
			for _, o := range []string{"o1", "o2"} {
				for _, k := range []string{"k1", "k2"} {
					for _, f := range []string{"none", "create", "sync"} {
						alpha = append(alpha, c12Op{Op: "Watch", Owner: o, Kind: k, Fail: f})
					}
				}
				alpha = append(alpha, c12Op{Op: "Free", Owner: o})
			}
			for _, k := range []string{"k1", "k2"} {
				for _, f := range []string{"none", "create", "sync"} {
					alpha = append(alpha, c12Op{Op: "Get", Kind: k, Fail: f})
				}
			}
			var rec func(prefix []c12Op)
			rec = func(prefix []c12Op) {
				if len(prefix) == a.steps {
					seqs = append(seqs, append([]c12Op{}, prefix...))
					return
				}
				for _, op := range alpha {
					rec(append(prefix, op))
				}
			}
			rec(nil)
		} else {
			// seeded random sequences
			rng := rand.New(rand.NewSource(a.seed))
			for i := 0; i < a.n; i++ {
				var s []c12Op
				for j := 0; j < a.steps; j++ {
					op := c12Op{Op: []string{"Watch", "Watch", "Free", "Get", "List", "Owners"}[rng.Intn(6)],
						Owner: []string{"o1", "o2", "o3"}[rng.Intn(3)], Kind: []string{"k1", "k2", "k3"}[rng.Intn(3)],
						Fail: []string{"none", "none", "none", "none", "create", "sync"}[rng.Intn(6)]}
					s = append(s, op)
				}
				seqs = append(seqs, s)
			}
		}
		for i, s := range seqs {
			if i%a.shards != a.shard {
				continue
			}
			w.Emit(Event{Actor: "sim", Ev: "Reset", Key: "-", Args: map[string]any{"scenario": fmt.Sprintf("c12-seq-%d", i)}})
			cw := newC12World(w.Scheme, 2)
			for _, op := range s {
				res := cw.apply(op)
				emitC12(w, "C12Op", map[string]any{"op": op.Op, "owner": op.Owner, "kind": op.Kind, "fail": op.Fail, "result": res, "state": cw.state()})
			}
		}
		return 0
	}
	// c12-stress: concurrent callers (run under -race); after all goroutines joined the abstract state is logged
	extraDrivers["c12-stress"] = func(w *World, _ *flag.FlagSet, a driverArgs) int {
		for i := 0; i < a.n; i++ {
			if i%a.shards != a.shard {
				continue
			}
			w.Emit(Event{Actor: "sim", Ev: "Reset", Key: "-", Args: map[string]any{"scenario": fmt.Sprintf("c12-stress-%d", i)}})
			cw := newC12World(w.Scheme, 2)
			cw.m.slow = true
			var wg sync.WaitGroup
			owners := []string{"o1", "o2", "o3", "o4"}
			finalFree := map[string]bool{}
			var fmu sync.Mutex
			for g, o := range owners {
				wg.Add(1)
				go func(g int, o string) {
					defer wg.Done()
					rng := rand.New(rand.NewSource(a.seed*1000 + int64(i*10+g)))
					freed := false
					for j := 0; j < a.steps; j++ {
						k := []string{"k1", "k2", "k3"}[rng.Intn(3)]
						switch rng.Intn(6) {
						case 0, 1, 2:
							cw.apply(c12Op{Op: "Watch", Owner: o, Kind: k})
							freed = false
						case 3:
							cw.apply(c12Op{Op: "Free", Owner: o})
							freed = true
						case 4:
							cw.apply(c12Op{Op: "Get", Owner: o, Kind: k})
						case 5:
							cw.apply(c12Op{Op: "Owners", Kind: k})
						}
					}
					if rng.Intn(2) == 0 {
						cw.apply(c12Op{Op: "Free", Owner: o})
						freed = true
					}
					fmu.Lock()
					finalFree[o] = freed
					fmu.Unlock()
				}(g, o)
			}
			wg.Wait()
			emitC12(w, "C12Quiescent", map[string]any{"state": cw.state(), "creates": cw.m.creates, "deletes": cw.m.deletes})
		}
		return 0
	}
}
