package verifsim

import (
	"context"
	"encoding/json"
	"sort"
	"strings"

	apierrors "k8s.io/apimachinery/pkg/api/errors"
	"k8s.io/apimachinery/pkg/apis/meta/v1/unstructured"
	"k8s.io/apimachinery/pkg/labels"
	"k8s.io/apimachinery/pkg/runtime"
	"k8s.io/apimachinery/pkg/runtime/schema"
	"sigs.k8s.io/controller-runtime/pkg/client"
	"sigs.k8s.io/controller-runtime/pkg/client/apiutil"
	"sigs.k8s.io/controller-runtime/pkg/handler"
	"sigs.k8s.io/controller-runtime/pkg/predicate"
	"sigs.k8s.io/controller-runtime/pkg/source"

	"package-operator.run/internal/dynamiccache"
)

// DynCache is the controller-scenario model of dynamiccache.Cache: label-filtered reads of the
// store, an owner registry (the dynRefs variable of the specification) and no informers.
// Property C12 is checked against the real dynamiccache.Cache, not this model.
type DynCache struct {
	sim    *Sim
	scheme *runtime.Scheme
	refs   map[schema.GroupVersionKind]map[dynamiccache.OwnerReference]struct{}
}

func NewDynCache(s *Sim) *DynCache {
	return &DynCache{sim: s, refs: map[schema.GroupVersionKind]map[dynamiccache.OwnerReference]struct{}{}}
}

func (d *DynCache) SetScheme(s *runtime.Scheme) { d.scheme = s }

// Reset drops all references (process restart).
func (d *DynCache) Reset() {
	d.refs = map[schema.GroupVersionKind]map[dynamiccache.OwnerReference]struct{}{}
}

func (d *DynCache) Source(handler.EventHandler, ...predicate.Predicate) source.Source { return nil }

func (d *DynCache) ownerRef(owner client.Object) (dynamiccache.OwnerReference, error) {
	gvk, err := apiutil.GVKForObject(owner, d.scheme)
	if err != nil {
		return dynamiccache.OwnerReference{}, err
	}
	return dynamiccache.OwnerReference{
		GroupKind: gvk.GroupKind(), UID: owner.GetUID(), Name: owner.GetName(), Namespace: owner.GetNamespace(),
	}, nil
}

// Refs returns the registry as sorted strings "Kind <- OwnerKind/ns/name#uid".
func (d *DynCache) Refs() []string {
	out := []string{}
	for gvk, m := range d.refs {
		for o := range m {
			out = append(out, gvk.Kind+" <- "+o.Kind+"/"+o.Namespace+"/"+o.Name+"#"+string(o.UID))
		}
	}
	sort.Strings(out)
	return out
}

func (d *DynCache) OwnersForGKV(gvk schema.GroupVersionKind) []dynamiccache.OwnerReference {
	var out []dynamiccache.OwnerReference
	for o := range d.refs[gvk] {
		out = append(out, o)
	}
	sort.Slice(out, func(i, j int) bool { return out[i].Name < out[j].Name })
	return out
}

func (d *DynCache) emit(p *Pass, ev string, k Key, res string, post Proj, args map[string]any) {
	a, id, t := "sim", 0, "-"
	if p != nil {
		a, id, t = p.Actor, p.ID, p.Target.String()
	}
	d.sim.Emit(Event{Actor: a, Pass: id, Target: t, Ev: ev, Key: k.String(), Role: "dyn", Res: res, Pre: post, Post: post, Args: args})
}

func (d *DynCache) Watch(ctx context.Context, owner client.Object, obj runtime.Object) error {
	gvk, err := apiutil.GVKForObject(obj, d.scheme)
	if err != nil {
		return err
	}
	k := Key{Group: gvk.Group, Kind: gvk.Kind, Name: "*"}
	p, fault := d.sim.gate(ctx, callInfo{verb: "Watch", key: k, role: "dyn"})
	if fault == "dead" {
		return errDead
	}
	if fault != "" {
		d.emit(p, "Watch", k, "Fault", Proj{}, nil)
		return errInjected
	}
	ref, err := d.ownerRef(owner)
	if err != nil {
		return err
	}
	if d.refs[gvk] == nil {
		d.refs[gvk] = map[dynamiccache.OwnerReference]struct{}{}
	}
	d.refs[gvk][ref] = struct{}{}
	d.emit(p, "Watch", k, "ok", Proj{}, map[string]any{"owner": ref.Kind + "/" + ref.Name, "ownerUID": string(ref.UID)})
	return nil
}

func (d *DynCache) Free(ctx context.Context, owner client.Object) error {
	ref, err := d.ownerRef(owner)
	if err != nil {
		return err
	}
	k := Key{Kind: "*", Name: "*"}
	p, fault := d.sim.gate(ctx, callInfo{verb: "Free", key: k, role: "dyn"})
	if fault == "dead" {
		return errDead
	}
	if fault != "" {
		d.emit(p, "Free", k, "Fault", Proj{}, nil)
		return errInjected
	}
	for gvk, m := range d.refs {
		delete(m, ref)
		if len(m) == 0 {
			delete(d.refs, gvk)
		}
	}
	d.emit(p, "Free", k, "ok", Proj{}, map[string]any{"owner": ref.Kind + "/" + ref.Name, "ownerUID": string(ref.UID)})
	return nil
}

var cacheSelector = labels.SelectorFromSet(labels.Set{cacheLbl: "True"})

func (d *DynCache) Get(ctx context.Context, key client.ObjectKey, out client.Object, _ ...client.GetOption) error {
	gvk, err := apiutil.GVKForObject(out, d.scheme)
	if err != nil {
		return err
	}
	st := d.sim.Store
	k, _, kerr := st.keyFor(gvk, key.Namespace, key.Name)
	if kerr != nil {
		k = Key{gvk.Group, gvk.Kind, key.Namespace, key.Name}
	}
	p, fault := d.sim.gate(ctx, callInfo{verb: "DynGet", key: k, role: "dyn"})
	if fault == "dead" {
		return errDead
	}
	if fault != "" {
		d.emit(p, "DynGet", k, "Fault", Proj{}, nil)
		return errInjected
	}
	if _, ok := d.refs[gvk]; !ok {
		d.emit(p, "DynGet", k, "NotStarted", Proj{}, nil)
		return &dynamiccache.CacheNotStartedError{}
	}
	if kerr != nil {
		d.emit(p, "DynGet", k, "NoMatch", Proj{}, nil)
		return kerr
	}
	st.mu.Lock()
	m, gerr := st.get(k, false)
	st.mu.Unlock()
	if gerr == nil {
		u := unstructured.Unstructured{Object: m}
		if !cacheSelector.Matches(labels.Set(u.GetLabels())) {
			// not visible through the label-filtered informer
			gerr = notFoundFor(k)
			m = nil
		}
	}
	d.emit(p, "DynGet", k, errClass(gerr), d.sim.Proj.Project(m), nil)
	if gerr != nil {
		return gerr
	}
	return fromMap(m, out, true)
}

func (d *DynCache) List(ctx context.Context, list client.ObjectList, opts ...client.ListOption) error {
	gvk, err := apiutil.GVKForObject(list, d.scheme)
	if err != nil {
		return err
	}
	gvk.Kind = strings.TrimSuffix(gvk.Kind, "List")
	lo := client.ListOptions{}
	lo.ApplyOptions(opts)
	k := Key{gvk.Group, gvk.Kind, lo.Namespace, "*"}
	p, fault := d.sim.gate(ctx, callInfo{verb: "DynList", key: k, role: "dyn"})
	if fault == "dead" {
		return errDead
	}
	if fault != "" {
		d.emit(p, "DynList", k, "Fault", Proj{}, nil)
		return errInjected
	}
	if _, ok := d.refs[gvk]; !ok {
		d.emit(p, "DynList", k, "NotStarted", Proj{}, nil)
		return &dynamiccache.CacheNotStartedError{}
	}
	st := d.sim.Store
	st.mu.Lock()
	items := st.list(gvk.GroupKind(), lo.Namespace, cacheSelector, false)
	st.mu.Unlock()
	var keep []map[string]any
	for _, it := range items {
		u := unstructured.Unstructured{Object: it}
		if lo.LabelSelector != nil && !lo.LabelSelector.Matches(labels.Set(u.GetLabels())) {
			continue
		}
		keep = append(keep, it)
	}
	d.emit(p, "DynList", k, "ok", Proj{}, map[string]any{"n": len(keep)})
	ul := &unstructured.UnstructuredList{}
	ul.SetGroupVersionKind(gvk.GroupVersion().WithKind(gvk.Kind + "List"))
	for _, it := range keep {
		ul.Items = append(ul.Items, unstructured.Unstructured{Object: it})
	}
	if l, ok := list.(*unstructured.UnstructuredList); ok {
		*l = *ul
		return nil
	}
	return fromListMap(ul, list)
}

func notFoundFor(k Key) error {
	return apierrors.NewNotFound(gr(schema.GroupKind{Group: k.Group, Kind: k.Kind}), k.Name)
}

func fromListMap(ul *unstructured.UnstructuredList, list client.ObjectList) error {
	b, err := json.Marshal(ul)
	if err != nil {
		return err
	}
	zero(list)
	return json.Unmarshal(b, list)
}
