package verifsim

import (
	"context"
	"encoding/json"
	"errors"
	"flag"
	"fmt"
	"math/rand"
	"os"
	"reflect"
	"sort"
	"strings"

	"github.com/go-logr/logr"
	metav1 "k8s.io/apimachinery/pkg/apis/meta/v1"
	"k8s.io/apimachinery/pkg/runtime"

	corev1alpha1 "package-operator.run/apis/core/v1alpha1"
	"package-operator.run/internal/apis/manifests"
	pkgctrl "package-operator.run/internal/controllers/packages"
	"package-operator.run/internal/packages"
)

// Package controller wiring (C16, C14 chunking + slice GC, C09 propagation): the real
// GenericPackageController with the real PackageDeployer; only the image puller is scripted.

var debugRender = os.Getenv("VERIF_DEBUG_RENDER") != ""

type fixture struct {
	Class string // valid | loadError | objectInvalid | configInvalid | constraintUnmet | pullError
	Files packages.Files
}

func manifestYAML(name string, extra string) string {
	return `apiVersion: manifests.package-operator.run/v1alpha1
kind: PackageManifest
metadata:
  name: ` + name + `
spec:
  scopes:
  - Namespaced
  phases:
  - name: p1
  - name: p2
  availabilityProbes:
  - probes:
    - condition:
        type: Available
        status: "True"
    selector:
      kind:
        group: example.verif
        kind: Widget
` + extra
}

const lockYAML = `apiVersion: manifests.package-operator.run/v1alpha1
kind: PackageManifestLock
metadata:
  creationTimestamp: "2024-01-01T00:00:00Z"
spec:
  images: []
`

// bigDocs: eight ConfigMaps of ~300 KiB each in phase p1.
func bigDocs() string {
	var sb strings.Builder
	for i := 0; i < 8; i++ {
		if i > 0 {
			sb.WriteString("---\n")
		}
		sb.WriteString(cmDoc(fmt.Sprintf("big%d", i), "p1", strings.Repeat(string(rune('a'+i)), 300<<10)))
	}
	return sb.String()
}

func cmDoc(name, phase, val string) string {
	return fmt.Sprintf("apiVersion: v1\nkind: ConfigMap\nmetadata:\n  name: %s\n  annotations:\n    package-operator.run/phase: %s\ndata:\n  v: %q\n", name, phase, val)
}

func widgetDoc(name, phase string, size int) string {
	return fmt.Sprintf("apiVersion: example.verif/v1\nkind: Widget\nmetadata:\n  name: %s\n  annotations:\n    package-operator.run/phase: %s\nspec:\n  size: %d\n", name, phase, size)
}

// Fixtures maps an image reference to package content.
func Fixtures() map[string]fixture {
	return map[string]fixture{
		"img/valid:v1": {"valid", packages.Files{
			"manifest.yaml": []byte(manifestYAML("app", "")),
			"a.yaml":        []byte(cmDoc("cm1", "p1", "v1") + "---\n" + cmDoc("cm2", "p1", "v1")),
			"b.yaml":        []byte(widgetDoc("w1", "p2", 1)),
		}},
		"img/valid:v2": {"valid", packages.Files{
			"manifest.yaml": []byte(manifestYAML("app", "")),
			"a.yaml":        []byte(cmDoc("cm1", "p1", "v2") + "---\n" + cmDoc("cm3", "p1", "v2")),
			"b.yaml":        []byte(widgetDoc("w1", "p2", 2)),
		}},
		"img/templated:v1": {"valid", packages.Files{
			"manifest.yaml": []byte(manifestYAML("app", "  config:\n    openAPIV3Schema:\n      type: object\n      properties:\n        size:\n          type: integer\n          default: 3\n")),
			"a.yaml.gotmpl": []byte("apiVersion: v1\nkind: ConfigMap\nmetadata:\n  name: cm1\n  annotations:\n    package-operator.run/phase: p1\ndata:\n  size: \"{{ .config.size }}\"\n"),
		}},
		"img/nomanifest:v1": {"loadError", packages.Files{
			"a.yaml": []byte(cmDoc("cm1", "p1", "v1")),
		}},
		"img/nophase:v1": {"objectInvalid", packages.Files{
			"manifest.yaml": []byte(manifestYAML("app", "")),
			"a.yaml":        []byte("apiVersion: v1\nkind: ConfigMap\nmetadata:\n  name: cm1\ndata:\n  v: x\n"),
		}},
		"img/badyaml:v1": {"objectInvalid", packages.Files{
			"manifest.yaml": []byte(manifestYAML("app", "")),
			"a.yaml":        []byte("apiVersion: v1\nkind: ConfigMap\nmetadata: [oops\n"),
		}},
		"img/needsconfig:v1": {"configInvalid", packages.Files{
			"manifest.yaml": []byte(manifestYAML("app", "  config:\n    openAPIV3Schema:\n      type: object\n      required: [size]\n      properties:\n        size:\n          type: integer\n")),
			"a.yaml":        []byte(cmDoc("cm1", "p1", "v1")),
		}},
		"img/openshift:v1": {"constraintUnmet", packages.Files{
			"manifest.yaml": []byte(manifestYAML("app", "  constraints:\n  - platform: [OpenShift]\n")),
			"a.yaml":        []byte(cmDoc("cm1", "p1", "v1")),
		}},
		"img/kube99:v1": {"constraintUnmet", packages.Files{
			"manifest.yaml": []byte(manifestYAML("app", "  constraints:\n  - platformVersion:\n      name: Kubernetes\n      range: \">=99.0.0\"\n")),
			"a.yaml":        []byte(cmDoc("cm1", "p1", "v1")),
		}},
		"img/kube1:v1": {"valid", packages.Files{
			"manifest.yaml": []byte(manifestYAML("app", "  constraints:\n  - platformVersion:\n      name: Kubernetes\n      range: \">=1.20.0\"\n")),
			"a.yaml":        []byte(cmDoc("cm1", "p1", "v1")),
		}},
		// structurally invalid manifests (duplicate phase name), without and with a lock file next to them; a valid
		// package with a lock file
		"img/dupphase:v1": {"objectInvalid", packages.Files{
			"manifest.yaml": []byte(strings.Replace(manifestYAML("app", ""), "- name: p2", "- name: p1", 1)),
			"a.yaml":        []byte(cmDoc("cm1", "p1", "v1")),
		}},
		"img/dupphase-locked:v1": {"objectInvalid", packages.Files{
			"manifest.yaml":      []byte(strings.Replace(manifestYAML("app", ""), "- name: p2", "- name: p1", 1)),
			"manifest.lock.yaml": []byte(lockYAML),
			"a.yaml":             []byte(cmDoc("cm1", "p1", "v1")),
		}},
		"img/locked:v1": {"valid", packages.Files{
			"manifest.yaml":      []byte(manifestYAML("app", "")),
			"manifest.lock.yaml": []byte(lockYAML),
			"a.yaml":             []byte(cmDoc("cm1", "p1", "v1")),
		}},
		// the rendered objects depend on the environment of the Package's namespace (HyperShift hosted cluster)
		"img/hosted:v1": {"valid", packages.Files{
			"manifest.yaml": []byte(manifestYAML("app", "  config:\n    openAPIV3Schema:\n      type: object\n      properties:\n        x:\n          type: string\n")),
			"a.yaml.gotmpl": []byte("apiVersion: v1\nkind: ConfigMap\nmetadata:\n  name: cm1\n  annotations:\n    package-operator.run/phase: p1\ndata:\n  x: {{ if hasKey .config \"x\" }}{{ .config.x | quote }}{{ else }}\"-\"{{ end }}\n" + tmplEnvLine),
		}},
		// a phase larger than 1 MiB: the default chunking strategy (bin-packing into ObjectSlices) has several bins to fill
		"img/big:v1": {"valid", packages.Files{
			"manifest.yaml": []byte(manifestYAML("app", "")),
			"a.yaml":        []byte(bigDocs()),
			"b.yaml":        []byte(widgetDoc("w1", "p2", 1)),
		}},
		"img/broken:v1": {"pullError", nil},
		// a multi-component package: spec.component selects what is deployed ("" = the root)
		"img/multi:v1": {"valid", packages.Files{
			"manifest.yaml":                     []byte(manifestYAML("app", "  components: {}\n")),
			"a.yaml":                            []byte(cmDoc("root", "p1", "v1")),
			"components/backend/manifest.yaml":  []byte(manifestYAML("backend", "")),
			"components/backend/a.yaml":         []byte(cmDoc("backend", "p1", "v1") + "---\n" + widgetDoc("wb", "p2", 1)),
			"components/frontend/manifest.yaml": []byte(manifestYAML("frontend", "")),
			"components/frontend/a.yaml":        []byte(cmDoc("frontend", "p1", "v1")),
		}},
	}
}

// AllFixtures adds the slice-name collision images (not part of the random image pool).
func AllFixtures() map[string]fixture {
	m := Fixtures()
	for k, v := range collideFixtures() {
		m[k] = v
	}
	return m
}

type scriptedPuller struct {
	w *World
}

func (p scriptedPuller) Pull(ctx context.Context, image string) (*packages.RawPackage, error) {
	k := Key{Kind: "Image", Name: image}
	pass, fault := p.w.gate(ctx, callInfo{verb: "Pull", key: k, role: "registry"})
	if fault == "dead" {
		return nil, errDead
	}
	fx, ok := p.w.Images[image]
	class := "pullError"
	var raw *packages.RawPackage
	var err error
	switch {
	case fault != "":
		err = errInjected
	case !ok || fx.Class == "pullError":
		err = errors.New("scripted: image not found in registry")
	default:
		class = fx.Class
		raw = (&packages.RawPackage{Files: fx.Files}).DeepCopy()
		if pass != nil {
			class = p.w.classWithConfig(image, fx.Class, pass.Snapshot)
		}
	}
	a, id, t := "sim", 0, "-"
	if pass != nil {
		a, id, t = pass.Actor, pass.ID, pass.Target.String()
		pass.Pulled = class
	}
	res := "ok"
	if err != nil {
		res = "Error"
	}
	p.w.Emit(Event{Actor: a, Pass: id, Target: t, Ev: "Pull", Key: k.String(), Role: "registry", Res: res, Args: map[string]any{"image": image, "class": class}})
	return raw, err
}

// classWithConfig refines the class of images whose manifest declares a configuration schema: whether the
// Package is admissible depends on spec.config (size must be an integer; required for img/needsconfig).
func (w *World) classWithConfig(image, class string, m map[string]any) string {
	if comp, _ := nestedMap(m, "spec")["component"].(string); comp != "" {
		if image != "img/multi:v1" || (comp != "backend" && comp != "frontend") {
			return "loadError" // no such component (or not a multi-component package)
		}
	}
	if image != "img/needsconfig:v1" && image != "img/templated:v1" {
		return class
	}
	cfg, _ := nestedMap(m, "spec")["config"].(map[string]any)
	size, has := cfg["size"]
	isInt := false
	switch t := size.(type) {
	case int64:
		isInt = true
	case float64:
		isInt = t == float64(int64(t))
	}
	switch {
	case !has && image == "img/needsconfig:v1":
		return "configInvalid"
	case has && !isInt:
		return "configInvalid"
	}
	return "valid"
}

func (w *World) buildPackageController() {
	if w.Images == nil {
		w.Images = AllFixtures()
	}
	c := pkgctrl.NewPackageController(w.Client, w.Uncached, logr.Discard(), w.Scheme, scriptedPuller{w}, nil, nil, nil)
	c.SetEnvironment(w.theEnvironment())
	w.Ctrls["pk"] = c
}

func NewPackage(name, image string, config map[string]any) *corev1alpha1.Package {
	p := &corev1alpha1.Package{ObjectMeta: metav1.ObjectMeta{Name: name, Namespace: NS}}
	p.Spec.Image = image
	if config != nil {
		b, _ := json.Marshal(config)
		p.Spec.Config = &runtime.RawExtension{Raw: b}
	}
	return p
}

var KPK = func(name string) Key { return Key{pkoGroup, "Package", NS, name} }

func (w *World) EnvSetPackageImage(k Key, image string) bool {
	return w.EnvMutate("EnvSetImage", k, map[string]any{"image": image}, func(m map[string]any) {
		nestedMap(m, "spec")["image"] = image
	})
}

func (w *World) EnvSetPackageComponent(k Key, comp string) bool {
	return w.EnvMutate("EnvSetComponent", k, map[string]any{"component": comp}, func(m map[string]any) {
		if comp == "" {
			delete(nestedMap(m, "spec"), "component")
		} else {
			nestedMap(m, "spec")["component"] = comp
		}
	})
}

func (w *World) EnvSetPackageConfig(k Key, cfg map[string]any) bool {
	return w.EnvMutate("EnvSetConfig", k, map[string]any{}, func(m map[string]any) {
		if cfg == nil {
			delete(nestedMap(m, "spec"), "config")
		} else {
			nestedMap(m, "spec")["config"] = normalize(cfg)
		}
	})
}

// expectedTemplate renders the package spec freshly (reference render) and returns, per phase, the
// object keys with content hashes — what the ObjectDeployment template must decode to.
func (w *World) expectedTemplate(pkgKey Key) ([][]string, bool) {
	m := w.Store.Snapshot(pkgKey)
	if m == nil {
		return nil, false
	}
	var p corev1alpha1.Package
	b, _ := json.Marshal(m)
	if json.Unmarshal(b, &p) != nil {
		return nil, false
	}
	fx, ok := w.Images[p.Spec.Image]
	if !ok || w.classWithConfig(p.Spec.Image, fx.Class, m) != "valid" {
		return nil, false
	}
	spec, ok := renderPackageSpecEnv(&p, fx, w.referenceEnvironment(p.Namespace))
	if !ok {
		return nil, false
	}
	var out [][]string
	for _, ph := range spec.Phases {
		row := []string{ph.Name}
		for _, o := range ph.Objects {
			row = append(row, objKeyOf(o.Object.Object, pkgKey.NS)+"#"+shortHash(o.Object.Object))
		}
		out = append(out, row)
	}
	return out, true
}

// renderPackageSpec is the reference render: the package pipeline called directly on a Package spec.
func renderPackageSpec(p *corev1alpha1.Package, fx fixture) (*corev1alpha1.ObjectSetTemplateSpec, bool) {
	return renderPackageSpecEnv(p, fx, manifests.PackageEnvironment{Kubernetes: manifests.PackageEnvironmentKubernetes{Version: "v1.28.0"}})
}

func renderPackageSpecEnv(p *corev1alpha1.Package, fx fixture, env manifests.PackageEnvironment) (*corev1alpha1.ObjectSetTemplateSpec, bool) {
	ctx := context.Background()
	pkg, err := packages.DefaultStructuralLoader.LoadComponent(ctx, (&packages.RawPackage{Files: fx.Files}).DeepCopy(), p.Spec.Component)
	if err != nil {
		if debugRender {
			fmt.Println("load:", err)
		}
		return nil, false
	}
	cfg := map[string]any{}
	if p.Spec.Config != nil {
		_ = json.Unmarshal(p.Spec.Config.Raw, &cfg)
	}
	if _, err := packages.AdmitPackageConfiguration(ctx, cfg, pkg.Manifest, nil); err != nil {
		if debugRender {
			fmt.Println("admit:", err)
		}
		return nil, false
	}
	tctx := packages.PackageRenderContext{
		Package:     manifests.TemplateContextPackage{TemplateContextObjectMeta: manifests.TemplateContextObjectMeta{Name: p.Name, Namespace: p.Namespace}},
		Config:      cfg,
		Images:      map[string]string{},
		Environment: env,
	}
	inst, err := packages.RenderPackageInstance(ctx, pkg, tctx, packages.DefaultPackageValidators, packages.DefaultObjectValidators)
	if err != nil {
		if debugRender {
			fmt.Println("render:", err)
		}
		return nil, false
	}
	spec := packages.RenderObjectSetTemplateSpec(inst)
	return &spec, true
}

// actualTemplate decodes the stored ObjectDeployment template, slices inlined in order.
func (w *World) actualTemplate(odKey Key) [][]string {
	m := w.Store.Snapshot(odKey)
	if m == nil {
		return nil
	}
	var od corev1alpha1.ObjectDeployment
	b, _ := json.Marshal(m)
	_ = json.Unmarshal(b, &od)
	var out [][]string
	for _, ph := range od.Spec.Template.Spec.Phases {
		row := []string{ph.Name}
		objs := ph.Objects
		for _, sl := range ph.Slices {
			sm := w.Store.Snapshot(Key{pkoGroup, "ObjectSlice", odKey.NS, sl})
			if sm == nil {
				row = append(row, "MISSING-SLICE:"+sl)
				continue
			}
			var s corev1alpha1.ObjectSlice
			sb, _ := json.Marshal(sm)
			_ = json.Unmarshal(sb, &s)
			objs = append(objs, s.Objects...)
		}
		for _, o := range objs {
			row = append(row, objKeyOf(o.Object.Object, odKey.NS)+"#"+shortHash(o.Object.Object))
		}
		out = append(out, row)
	}
	return out
}

// NotePackage records, after a Package pass, whether the deployment template equals a fresh render.
func (w *World) NotePackage(p *Pass) {
	if p.Actor != "pk" {
		return
	}
	exp, valid := w.expectedTemplate(p.Target)
	act := w.actualTemplate(Key{pkoGroup, "ObjectDeployment", p.Target.NS, p.Target.Name})
	w.Emit(Event{Actor: "pk", Pass: p.ID, Target: p.Target.String(), Ev: "C16Template", Key: p.Target.String(),
		Args: map[string]any{"specValid": valid, "hasDeployment": act != nil, "matches": valid && reflect.DeepEqual(exp, act),
			"passErr": p.Err != nil, "pulled": p.Pulled}})
}

// configPools: scenarios that pin the image and draw config edits from their own pool.
var configPools = map[string][]map[string]any{}

func packageScenarios() []Scenario {
	mk := func(name, image string, cfg map[string]any, ann map[string]string) Scenario {
		return Scenario{Name: name, Setup: func(w *World) {
			p := NewPackage("p1", image, cfg)
			p.Annotations = ann
			w.EnvCreate(p)
		}}
	}
	each := map[string]string{"packages.package-operator.run/chunking-strategy": "EachObject"}
	return []Scenario{
		mk("pkg-valid", "img/valid:v1", nil, nil),
		mk("pkg-valid-sliced", "img/valid:v1", nil, each),
		mk("pkg-templated", "img/templated:v1", map[string]any{"size": 5}, nil),
		mk("pkg-nomanifest", "img/nomanifest:v1", nil, nil),
		mk("pkg-nophase", "img/nophase:v1", nil, each),
		mk("pkg-needsconfig", "img/needsconfig:v1", nil, nil),
		mk("pkg-openshift", "img/openshift:v1", nil, nil),
		mk("pkg-kube99", "img/kube99:v1", nil, each),
		mk("pkg-broken", "img/broken:v1", nil, nil),
		// multi-component image: only spec.component is edited
		{Name: "pkg-multi", Setup: func(w *World) {
			p := NewPackage("p1", "img/multi:v1", nil)
			p.Spec.Component = "backend"
			w.EnvCreate(p)
		}},
		// HyperShift management cluster: p1 in a plain namespace, ph (same image) in the namespace of hosted cluster "one";
		// both are unpacked by the same controller (one environment sink); only p1's config is edited
		hostedScenario(),
		// a package whose first phase exceeds the slice size limit (default chunking strategy)
		pinned("pkg-big", "img/big:v1"),
		// created already paused: nothing may be pulled or deployed until it is unpaused
		{Name: "pkg-paused-start", Setup: func(w *World) {
			p := NewPackage("p1", "img/valid:v1", nil)
			p.Spec.Paused = true
			w.EnvCreate(p)
		}},
	}
}

func pinned(name, image string) Scenario {
	configPools[name] = []map[string]any{nil}
	return Scenario{Name: name, Setup: func(w *World) { w.EnvCreate(NewPackage("p1", image, nil)) }}
}

func hostedScenario() Scenario {
	configPools["pkg-hosted"] = []map[string]any{nil, {"x": "1"}, {"x": "2"}}
	return Scenario{Name: "pkg-hosted", Setup: func(w *World) {
		w.EnableHyperShift()
		w.EnvCreate(NewPackage("p1", "img/hosted:v1", nil))
		ph := NewPackage("ph", "img/hosted:v1", nil)
		ph.Namespace = HostedNS
		w.EnvCreate(ph)
	}}
}

// collideScenarios (C14): sliced packages whose slice contents collide in the FNV32 slice name.
func collideScenarios() []Scenario {
	ensureCollision()
	each := map[string]string{"packages.package-operator.run/chunking-strategy": "EachObject"}
	mk := func(name, image string, cfg map[string]any) Scenario {
		return Scenario{Name: name, Setup: func(w *World) {
			p := NewPackage("p1", image, cfg)
			p.Annotations = each
			w.EnvCreate(p)
		}}
	}
	configPools["pkg-collide-update"] = []map[string]any{{"idx": collideA}, {"idx": collideB}, {"idx": "7"}}
	configPools["pkg-collide-pair"] = []map[string]any{nil}
	return []Scenario{
		mk("pkg-collide-update", collideImage, map[string]any{"idx": collideA}),
		mk("pkg-collide-pair", collidePairImage, nil),
	}
}

func init() {
	extraDrivers["package-walk"] = func(w *World, _ *flag.FlagSet, a driverArgs) int {
		scs := packageScenarios()
		if a.profile == "collide" {
			scs = collideScenarios()
		}
		if a.profile == "big" {
			// a phase beyond the slice size limit: the default chunker fills several ObjectSlices (C13: every object once, in order)
			scs = []Scenario{pinned("pkg-big", "img/big:v1")}
		}
		if a.profile == "env" {
			// the environment dimension alone, no API faults: an unchanged Package keeps its template (C13)
			scs = []Scenario{hostedScenario()}
		}
		images := make([]string, 0)
		for k := range Fixtures() {
			images = append(images, k)
		}
		sort.Strings(images)
		for i := 0; i < a.n; i++ {
			if i%a.shards != a.shard {
				continue
			}
			sc := scs[i%len(scs)]
			seed := a.seed*100003 + int64(i)
			rng := rand.New(rand.NewSource(seed))
			w.AnnotationPhases = false
			w.Reset(fmt.Sprintf("%s/seed=%d", sc.Name, seed))
			sc.Setup(w)
			if strings.Contains(sc.Name, "sliced") && a.profile != "env" && a.profile != "big" && a.profile != "collide" && rng.Intn(2) == 0 {
				// directed prefix: the deployment exists with its slices but no ObjectSet yet (the deployment controller
				// has not run); the package is updated to an image that drops a slice, and the deployer's update of the
				// deployment is answered with a server error
				w.NotePackage(w.RunPass("pk", KPK("p1")))
				w.EnvSetPackageImage(KPK("p1"), "img/valid:v2")
				p := w.StartPass("pk", KPK("p1"))
				for p.Pending != nil {
					f := ""
					if p.Pending.verb == "Update" && p.Pending.key.Kind == "ObjectDeployment" {
						f = "before"
					}
					if w.Step(p, f) {
						break
					}
				}
				w.NotePackage(p)
			}
			faults := 3
			conflicts := 2
			updFaults := 2
			if a.profile == "env" || a.profile == "big" {
				faults, conflicts, updFaults = 0, 0, 0
			}
			flight := map[string]*Pass{}
			finish := func(p *Pass) {
				delete(flight, p.Actor)
				w.NotePackage(p)
			}
			for step := 0; step < a.steps; step++ {
				r := rng.Intn(100)
				switch {
				case r < 8:
					// user edits the Package spec
					pool, pinned := configPools[sc.Name]
					switch c := rng.Intn(4); {
					case sc.Name == "pkg-multi" && c < 3:
						w.EnvSetPackageComponent(KPK("p1"), []string{"", "backend", "frontend", "frontend", "nope"}[rng.Intn(5)])
					case pinned && c < 3:
						w.EnvSetPackageConfig(KPK("p1"), pool[rng.Intn(len(pool))])
					case c < 2:
						w.EnvSetPackageImage(KPK("p1"), images[rng.Intn(len(images))])
					case c == 2:
						w.EnvSetPackageConfig(KPK("p1"), []map[string]any{nil, {"size": 7}, {"size": "notanumber"}}[rng.Intn(3)])
					default:
						m := w.Store.Snapshot(KPK("p1"))
						paused, _ := nestedMap(m, "spec")["paused"].(bool)
						w.EnvSetPaused(KPK("p1"), !paused)
					}
				case r < 10:
					// somebody deletes the ObjectDeployment (while the Package is paused it must not come back)
					kd := Key{pkoGroup, "ObjectDeployment", NS, "p1"}
					if m := w.Store.Snapshot(KPK("p1")); m != nil && w.Store.Snapshot(kd) != nil && rng.Intn(3) == 0 && a.profile != "env" && a.profile != "big" {
						if paused, _ := nestedMap(m, "spec")["paused"].(bool); paused {
							w.EnvDelete(kd, false)
						}
					}
				case r < 14:
					for _, k := range sortedKeys(w.ListedObjects()) {
						if k.Kind == "Widget" && w.Store.Snapshot(k) != nil {
							w.EnvSetWidgetStatus(k, []string{"Ready", "NotReady"}[rng.Intn(2)])
						}
					}
				default:
					// controllers: start or step passes; api mode interleaves pk with od/os
					rs := w.Reconcilables()
					var cands [][2]any
					for _, rc := range rs {
						if flight[rc[0].(string)] == nil {
							cands = append(cands, rc)
						}
					}
					if len(flight) > 0 && (len(cands) == 0 || rng.Intn(3) != 0) {
						var as []string
						for k := range flight {
							as = append(as, k)
						}
						sort.Strings(as)
						p := flight[as[rng.Intn(len(as))]]
						fault := ""
						if faults > 0 && rng.Intn(10) == 0 {
							faults--
							fault = []string{"before", "after", "conflict"}[rng.Intn(3)]
						}
						// the deployer's Update of the ObjectDeployment races with the deployment controller's status writes
						if fault == "" && conflicts > 0 && p.Actor == "pk" && p.Pending != nil && p.Pending.verb == "Update" &&
							p.Pending.key.Kind == "ObjectDeployment" && rng.Intn(3) == 0 {
							conflicts--
							fault = "conflict"
						}
						// ... or is answered with a server error (nothing written)
						if fault == "" && updFaults > 0 && p.Actor == "pk" && p.Pending != nil && p.Pending.verb == "Update" &&
							p.Pending.key.Kind == "ObjectDeployment" && rng.Intn(3) == 0 {
							updFaults--
							fault = "before"
						}
						n := 1
						if a.mode == "atomic" {
							n = 1 << 20
						}
						for j := 0; j < n; j++ {
							if w.Step(p, fault) {
								finish(p)
								break
							}
							fault = ""
						}
					} else if len(cands) > 0 {
						c := cands[rng.Intn(len(cands))]
						p := w.StartPass(c[0].(string), c[1].(Key))
						if p.Pending != nil {
							flight[p.Actor] = p
						} else {
							w.NotePackage(p)
						}
					}
				}
			}
			for _, p := range flight {
				for !w.Step(p, "") {
				}
				w.NotePackage(p)
			}
			// settle and judge the final state
			for r := 0; r < 8; r++ {
				for _, rc := range w.Reconcilables() {
					p := w.RunPass(rc[0].(string), rc[1].(Key))
					w.NotePackage(p)
				}
				for _, k := range sortedKeys(w.ListedObjects()) {
					if k.Kind == "Widget" && w.Store.Snapshot(k) != nil && probeClass(w.Store.Snapshot(k)) != "Ready" {
						w.EnvSetWidgetStatus(k, "Ready")
					}
				}
			}
		}
		return 0
	}
}

// package-history: long histories of package updates on a sliced package, with the system settling (more or less)
// between edits: revisions get rolled out, paused, archived and pruned, slices are added and dropped, slice GC runs
// with archived revisions around (C14 "histories of package updates that add and drop slices", C08 via the Package).
func init() {
	extraDrivers["package-history"] = func(w *World, _ *flag.FlagSet, a driverArgs) int {
		each := map[string]string{"packages.package-operator.run/chunking-strategy": "EachObject"}
		imgs := []string{"img/valid:v1", "img/valid:v2", "img/templated:v1", "img/kube1:v1"}
		for i := 0; i < a.n; i++ {
			if i%a.shards != a.shard {
				continue
			}
			seed := a.seed*100019 + int64(i)
			rng := rand.New(rand.NewSource(seed))
			w.AnnotationPhases = false
			w.Reset(fmt.Sprintf("pkg-history/seed=%d", seed))
			p := NewPackage("p1", imgs[rng.Intn(2)], nil)
			if i%4 != 3 {
				p.Annotations = each
			}
			w.EnvCreate(p)
			rounds := func(n int) {
				for r := 0; r < n; r++ {
					rcs := w.Reconcilables()
					rng.Shuffle(len(rcs), func(x, y int) { rcs[x], rcs[y] = rcs[y], rcs[x] })
					for _, rc := range rcs {
						if w.Store.Snapshot(rc[1].(Key)) == nil {
							continue
						}
						ps := w.RunPass(rc[0].(string), rc[1].(Key))
						w.NotePackage(ps)
					}
					for _, k := range sortedKeys(w.ListedObjects()) {
						if k.Kind == "Widget" && w.Store.Snapshot(k) != nil && probeClass(w.Store.Snapshot(k)) != "Ready" && rng.Intn(4) != 0 {
							w.EnvSetWidgetStatus(k, "Ready")
						}
					}
					w.EnvGC()
				}
			}
			rounds(2 + rng.Intn(6))
			for e := 0; e < a.steps; e++ {
				switch rng.Intn(5) {
				case 0:
					w.EnvSetPackageConfig(KPK("p1"), []map[string]any{nil, {"size": 7}, {"size": 9}}[rng.Intn(3)])
				default:
					w.EnvSetPackageImage(KPK("p1"), imgs[rng.Intn(len(imgs))])
				}
				rounds(1 + rng.Intn(8))
			}
			rounds(8)
		}
		return 0
	}
}

var _ = strings.TrimSpace
