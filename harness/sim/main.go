package verifsim

import (
	"bufio"
	"fmt"
	"os"

	"k8s.io/apimachinery/pkg/apis/meta/v1/unstructured"
)

// Main is the CLI entry point.
func Main(args []string) int {
	if len(args) == 0 {
		fmt.Fprintln(os.Stderr, "usage: pkosim <driver> [flags]")
		return 2
	}
	switch args[0] {
	case "smoke":
		out := bufio.NewWriter(os.Stdout)
		defer out.Flush()
		w := NewWorld(out)
		w.EnvCreate(NewObjectSet("a1", []PhaseSpec{
			{Name: "p1", Objects: []*unstructured.Unstructured{ConfigMap("cm1", "x")}},
			{Name: "p2", Objects: []*unstructured.Unstructured{Widget("w1", 1)}},
		}))
		for i := 0; i < 3; i++ {
			w.RunPass("os", KOS("a1"))
		}
		w.EnvSetWidgetStatus(KW("w1"), "Ready")
		w.RunPass("os", KOS("a1"))
		w.EnvDelete(KOS("a1"), false)
		for i := 0; i < 3; i++ {
			w.RunPass("os", KOS("a1"))
		}
		return 0
	}
	fmt.Fprintln(os.Stderr, "unknown driver", args[0])
	return 2
}
