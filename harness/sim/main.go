package verifsim

import (
	"bufio"
	"flag"
	"fmt"
	"os"
	"strings"
)

// Main is the CLI entry point: pkosim <driver> [flags]; traces go to -out (ndjson).
func Main(args []string) int {
	if len(args) == 0 {
		fmt.Fprintln(os.Stderr, "usage: pkosim <driver> [flags]")
		return 2
	}
	drv := args[0]
	fs := flag.NewFlagSet(drv, flag.ExitOnError)
	outPath := fs.String("out", "", "trace file (default stdout)")
	seed := fs.Int64("seed", 1, "base seed")
	n := fs.Int("n", 10, "number of walks / cases")
	steps := fs.Int("steps", 60, "steps per walk")
	scen := fs.String("scenarios", "", "comma separated scenario names (default all)")
	mode := fs.String("mode", "atomic", "atomic | api (interleaving granularity)")
	profile := fs.String("profile", "rollout", "disturbance profile")
	shard := fs.Int("shard", 0, "shard index")
	shards := fs.Int("shards", 1, "number of shards")
	_ = fs.Parse(args[1:])

	f := os.Stdout
	if *outPath != "" {
		var err error
		f, err = os.Create(*outPath)
		if err != nil {
			fmt.Fprintln(os.Stderr, err)
			return 2
		}
		defer f.Close()
	}
	out := bufio.NewWriterSize(f, 1<<20)
	defer out.Flush()
	w := NewWorld(out)

	var scs []Scenario
	if *scen == "" {
		scs = append(Scenarios(), moreScenarios()...)
	} else {
		for _, name := range strings.Split(*scen, ",") {
			s, ok := ScenarioByName(name)
			if !ok {
				fmt.Fprintln(os.Stderr, "unknown scenario", name)
				return 2
			}
			scs = append(scs, s)
		}
	}

	switch drv {
	case "smoke":
		w.Reset("smoke")
		scs[0].Setup(w)
		for i := 0; i < 3; i++ {
			w.RunPass("os", KOS("a1"))
		}
		w.Settle(10)
		return 0
	case "random":
		o := ProfileOpts(*profile)
		o.Steps = *steps
		o.PassAtomic = *mode == "atomic"
		for i := 0; i < *n; i++ {
			if i%*shards != *shard {
				continue
			}
			sc := scs[i%len(scs)]
			RandomWalk(w, sc, *seed*100003+int64(i), o)
		}
	case "adopt-table":
		AdoptTable(w, *seed, *n, *shard, *shards)
	default:
		if d, ok := extraDrivers[drv]; ok {
			return d(w, fs, driverArgs{seed: *seed, n: *n, steps: *steps, scs: scs, mode: *mode, profile: *profile, shard: *shard, shards: *shards})
		}
		fmt.Fprintln(os.Stderr, "unknown driver", drv)
		return 2
	}
	out.Flush()
	fmt.Fprintf(os.Stderr, "events=%d panics=%d\n", w.NumEvents(), w.Panics)
	return 0
}

type driverArgs struct {
	seed          int64
	n, steps      int
	scs           []Scenario
	mode, profile string
	shard, shards int
}

var extraDrivers = map[string]func(w *World, fs *flag.FlagSet, a driverArgs) int{}

// ProfileOpts returns the disturbance profile of a property family.
func ProfileOpts(p string) RandomOpts {
	switch p {
	case "rollout": // C03, C06: workload status changes, drift, no ownership games
		return RandomOpts{EnvProb: 0.35, EnvBudget: 4, Settle: true}
	case "collision": // C01, C02: third parties re-own / create between reconciles
		return RandomOpts{EnvProb: 0.35, EnvBudget: 6, AllowReown: true, Faults: 2, Conflicts: 3, Legacy: true, Settle: true}
	case "teardown": // C04, C05
		return RandomOpts{EnvProb: 0.3, EnvBudget: 6, AllowReown: true, AllowCRDelete: true, AllowArchive: true, AllowOrphan: true, Crashes: 1, Faults: 2, Settle: true}
	case "pause": // C09
		return RandomOpts{EnvProb: 0.4, EnvBudget: 8, AllowPause: true, AllowReown: true, Settle: true}
	case "handover": // C02: revisions paused / archived / deleted mid-handover, no third-party ownership edits
		return RandomOpts{EnvProb: 0.3, EnvBudget: 5, AllowPause: true, AllowArchive: true, AllowCRDelete: true, AllowOrphan: true, Faults: 2, Conflicts: 3, Legacy: true, Settle: true}
	case "race": // C05: third party acts between PKO's read and its delete
		return RandomOpts{EnvProb: 0.25, EnvBudget: 8, AllowReown: true, AllowCRDelete: true, AllowArchive: true, AllowOrphan: true, Race: true, Settle: true}
	case "deploy": // C07, C08: template edits, lagging cache for creates, faults and crashes around the create
		return RandomOpts{EnvProb: 0.35, EnvBudget: 3, TemplateEdits: 4, Lag: true, Faults: 2, Crashes: 1, Settle: true}
	case "deploy-race": // C08: the ObjectSet and the ObjectSetPhase controller race on objects shared by two revisions
		return RandomOpts{EnvProb: 0.3, EnvBudget: 3, TemplateEdits: 4, Race: true, Settle: true}
	case "deploy-pause": // C09 propagation
		return RandomOpts{EnvProb: 0.35, EnvBudget: 2, TemplateEdits: 6, AllowPause: true, Settle: true}
	case "chaos": // C10
		return RandomOpts{EnvProb: 0.3, EnvBudget: 4, Faults: 3, Crashes: 2, Settle: true}
	case "all":
		return RandomOpts{EnvProb: 0.35, EnvBudget: 8, AllowReown: true, AllowCRDelete: true, AllowArchive: true, AllowPause: true, AllowOrphan: true, Faults: 2, Crashes: 1, Settle: true}
	}
	return RandomOpts{EnvProb: 0.3, EnvBudget: 3, Settle: true}
}
