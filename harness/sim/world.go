package verifsim

import (
	"fmt"
	"io"
	"os"
	"package-operator.run/internal/apis/manifests"
	hypershiftv1beta1 "package-operator.run/internal/controllers/hostedclusters/hypershift/v1beta1"
	"sort"

	"github.com/go-logr/logr"
	metav1 "k8s.io/apimachinery/pkg/apis/meta/v1"
	"k8s.io/apimachinery/pkg/apis/meta/v1/unstructured"
	"k8s.io/apimachinery/pkg/runtime"
	"k8s.io/apimachinery/pkg/runtime/schema"
	clientgoscheme "k8s.io/client-go/kubernetes/scheme"
	"sigs.k8s.io/controller-runtime/pkg/client"

	pkoapis "package-operator.run/apis"
	corev1alpha1 "package-operator.run/apis/core/v1alpha1"
	"package-operator.run/internal/constants"
	"package-operator.run/internal/controllers/objectdeployments"
	"package-operator.run/internal/controllers/objectsetphases"
	"package-operator.run/internal/controllers/objectsets"
)

const NS = "ns1"

// World = Sim + the real controllers built by the repository's constructors.
type World struct {
	*Sim
	Scheme   *runtime.Scheme
	Client   *Client
	Uncached *Client
	// AnnotationPhases: build the ObjectSetPhase controller in its multi-cluster flavour
	// (annotation owner strategy) instead of the same-cluster one.
	AnnotationPhases bool
	// Images: the scripted registry of the Package controller harness
	Images map[string]fixture
	// HyperShift: the environment reports a HyperShift management cluster (EnableHyperShift)
	HyperShift bool
	// GoneSlices: stand-alone ObjectSlices a user deleted / has not created yet (the walker restores them later)
	GoneSlices map[Key]*unstructured.Unstructured
	// TemplateBase: the family of template variants the user's template edits of this scenario choose from
	TemplateBase int
}

var (
	gvkConfigMap     = schema.GroupVersionKind{Version: "v1", Kind: "ConfigMap"}
	gvkSecret        = schema.GroupVersionKind{Version: "v1", Kind: "Secret"}
	gvkNamespace     = schema.GroupVersionKind{Version: "v1", Kind: "Namespace"}
	gvkWidget        = schema.GroupVersionKind{Group: "example.verif", Version: "v1", Kind: "Widget"}
	gvkClusterThing  = schema.GroupVersionKind{Group: "example.verif", Version: "v1", Kind: "ClusterThing"}
	gvkGhost         = schema.GroupVersionKind{Group: "example.verif", Version: "v1", Kind: "Ghost"}
	gvkHostedCluster = hypershiftv1beta1.GroupVersion.WithKind("HostedCluster")
)

// HostedNS is the namespace of the hosted cluster hc/one of the HyperShift scenarios.
const HostedNS = "hc-one"

// theEnvironment is what the environment manager would have probed: plain Kubernetes, or a HyperShift management cluster.
func (w *World) theEnvironment() *manifests.PackageEnvironment {
	env := &manifests.PackageEnvironment{Kubernetes: manifests.PackageEnvironmentKubernetes{Version: "v1.28.0"}}
	if w.HyperShift {
		env.HyperShift = &manifests.PackageEnvironmentHyperShift{}
	}
	return env
}

// referenceEnvironment: the environment of a namespace, computed independently of the Sink.
func (w *World) referenceEnvironment(ns string) manifests.PackageEnvironment {
	env := *w.theEnvironment()
	if w.HyperShift {
		env.HyperShift = &manifests.PackageEnvironmentHyperShift{}
		if ns == HostedNS && w.Store.Snapshot(Key{gvkHostedCluster.Group, "HostedCluster", "hc", "one"}) != nil {
			env.HyperShift.HostedCluster = &manifests.PackageEnvironmentHyperShiftHostedCluster{
				TemplateContextObjectMeta: manifests.TemplateContextObjectMeta{Name: "one", Namespace: "hc"}, HostedClusterNamespace: HostedNS}
		}
	}
	return env
}

// EnableHyperShift turns the world into a HyperShift management cluster with one hosted cluster (namespace hc-one).
func (w *World) EnableHyperShift() {
	w.HyperShift = true
	w.BuildControllers()
	w.EnvCreate(Obj(gvkNamespace, "", "hc"))
	w.EnvCreate(Obj(gvkNamespace, "", HostedNS))
	w.EnvCreate(Obj(gvkHostedCluster, "hc", "one"))
}

func NewWorld(out io.Writer) *World {
	w := &World{Sim: NewSim(out)}
	w.Scheme = runtime.NewScheme()
	must(clientgoscheme.AddToScheme(w.Scheme))
	must(pkoapis.AddToScheme(w.Scheme))
	must(hypershiftv1beta1.AddToScheme(w.Scheme))
	w.Dyn.SetScheme(w.Scheme)
	st := w.Store
	gv := corev1alpha1.GroupVersion
	for _, k := range []string{"ObjectSet", "ObjectSetPhase", "ObjectDeployment", "ObjectSlice", "ObjectTemplate", "Package"} {
		st.Register(gv.WithKind(k), true, k != "ObjectSlice")
		st.Register(gv.WithKind("Cluster"+k), false, k != "ObjectSlice")
	}
	st.Register(gvkConfigMap, true, false)
	st.Register(gvkSecret, true, false)
	st.Register(gvkNamespace, false, true)
	st.Register(gvkWidget, true, false)
	st.AlsoServe(gvkWidget.GroupKind().WithVersion("v2"), true) // a second served version of the same resource
	st.Register(gvkClusterThing, false, false)
	st.Register(gvkHostedCluster, true, true)
	w.Client = w.NewClient(w.Scheme, "client")
	w.Uncached = w.NewClient(w.Scheme, "uncached")
	w.BuildControllers()
	return w
}

func must(err error) {
	if err != nil {
		panic(err)
	}
}

// BuildControllers (re)creates every controller through the repository's constructors;
// calling it again models a process restart (all in-memory state lost).
func (w *World) BuildControllers() {
	log := logr.Discard()
	rm := w.Store.RESTMapper()
	w.Ctrls["os"] = objectsets.NewObjectSetController(w.Client, log, w.Scheme, w.Dyn, w.Uncached, nil, rm)
	w.Ctrls["cos"] = objectsets.NewClusterObjectSetController(w.Client, log, w.Scheme, w.Dyn, w.Uncached, nil, rm)
	w.AnnotationActors["ph"], w.AnnotationActors["cph"] = w.AnnotationPhases, w.AnnotationPhases
	if w.AnnotationPhases {
		w.Ctrls["ph"] = objectsetphases.NewMultiClusterObjectSetPhaseController(log, w.Scheme, w.Dyn, w.Uncached, "default", w.Client, w.Client, rm)
		w.Ctrls["cph"] = objectsetphases.NewMultiClusterClusterObjectSetPhaseController(log, w.Scheme, w.Dyn, w.Uncached, "default", w.Client, w.Client, rm)
	} else {
		w.Ctrls["ph"] = objectsetphases.NewSameClusterObjectSetPhaseController(log, w.Scheme, w.Dyn, w.Uncached, "default", w.Client, rm)
		w.Ctrls["cph"] = objectsetphases.NewSameClusterClusterObjectSetPhaseController(log, w.Scheme, w.Dyn, w.Uncached, "default", w.Client, rm)
	}
	w.Ctrls["od"] = objectdeployments.NewObjectDeploymentController(w.Client, log, w.Scheme)
	w.Ctrls["cod"] = objectdeployments.NewClusterObjectDeploymentController(w.Client, log, w.Scheme)
	w.buildExtraControllers()
}

// Restart models an operator restart: in-flight passes must have been abandoned by the caller.
func (w *World) Restart() {
	w.Dyn.Reset()
	w.BuildControllers()
	w.Emit(Event{Actor: "env", Ev: "Crash", Key: "-"})
}

// ---- object builders ----

func Obj(gvk schema.GroupVersionKind, ns, name string) *unstructured.Unstructured {
	u := &unstructured.Unstructured{}
	u.SetGroupVersionKind(gvk)
	u.SetNamespace(ns)
	u.SetName(name)
	return u
}

func ConfigMap(name string, data string) *unstructured.Unstructured {
	u := Obj(gvkConfigMap, "", name)
	u.Object["data"] = map[string]any{"v": data}
	return u
}

func Widget(name string, size int64) *unstructured.Unstructured {
	u := Obj(gvkWidget, "", name)
	u.Object["spec"] = map[string]any{"size": size}
	return u
}

func KeyOf(u *unstructured.Unstructured, defaultNS string) Key {
	ns := u.GetNamespace()
	if ns == "" {
		ns = defaultNS
	}
	gvk := u.GroupVersionKind()
	return Key{gvk.Group, gvk.Kind, ns, u.GetName()}
}

type PhaseSpec struct {
	Name    string
	Class   string
	Objects []*unstructured.Unstructured
	CP      corev1alpha1.CollisionProtection
	Slices  []string
	// Mapped: every Widget of the phase maps its Available condition into the owner's status (type verif.example/<name>)
	Mapped bool
}

func toPhases(phases []PhaseSpec) []corev1alpha1.ObjectSetTemplatePhase {
	var out []corev1alpha1.ObjectSetTemplatePhase
	for _, ph := range phases {
		p := corev1alpha1.ObjectSetTemplatePhase{Name: ph.Name, Class: ph.Class, Slices: ph.Slices}
		for _, o := range ph.Objects {
			oo := corev1alpha1.ObjectSetObject{Object: *o.DeepCopy(), CollisionProtection: ph.CP}
			if ph.Mapped && o.GetKind() == "Widget" {
				oo.ConditionMappings = []corev1alpha1.ConditionMapping{{SourceType: "Available", DestinationType: "verif.example/" + o.GetName()}}
			}
			p.Objects = append(p.Objects, oo)
		}
		out = append(out, p)
	}
	return out
}

// StdProbes is the availability probe used by all schedule scenarios: Widgets must report
// condition Available=True for their current generation. The specification's Probing operator
// evaluates the same rule on the projection's probe class.
func StdProbes() []corev1alpha1.ObjectSetProbe {
	return []corev1alpha1.ObjectSetProbe{{
		Selector: corev1alpha1.ProbeSelector{Kind: &corev1alpha1.PackageProbeKindSpec{Group: gvkWidget.Group, Kind: gvkWidget.Kind}},
		Probes:   []corev1alpha1.Probe{{Condition: &corev1alpha1.ProbeConditionSpec{Type: "Available", Status: "True"}}},
	}}
}

// CELProbes is the standard availability probe written as a CEL rule with an EMPTY failure message (valid per CRD).
func CELProbes() []corev1alpha1.ObjectSetProbe {
	return []corev1alpha1.ObjectSetProbe{{
		Selector: corev1alpha1.ProbeSelector{Kind: &corev1alpha1.PackageProbeKindSpec{Group: gvkWidget.Group, Kind: gvkWidget.Kind}},
		Probes: []corev1alpha1.Probe{{CEL: &corev1alpha1.ProbeCELSpec{
			Rule:    `has(self.status) && has(self.status.conditions) && self.status.conditions.exists(c, c.type == "Available" && c.status == "True")`,
			Message: ""}}},
	}}
}

func TemplateSpec(phases []PhaseSpec) corev1alpha1.ObjectSetTemplateSpec {
	return corev1alpha1.ObjectSetTemplateSpec{Phases: toPhases(phases), AvailabilityProbes: StdProbes()}
}

func NewObjectSet(name string, phases []PhaseSpec, previous ...string) *corev1alpha1.ObjectSet {
	os := &corev1alpha1.ObjectSet{ObjectMeta: metav1.ObjectMeta{Name: name, Namespace: NS}}
	os.Spec.ObjectSetTemplateSpec = TemplateSpec(phases)
	for _, p := range previous {
		os.Spec.Previous = append(os.Spec.Previous, corev1alpha1.PreviousRevisionReference{Name: p})
	}
	return os
}

func NewObjectDeployment(name string, phases []PhaseSpec) *corev1alpha1.ObjectDeployment {
	od := &corev1alpha1.ObjectDeployment{ObjectMeta: metav1.ObjectMeta{Name: name, Namespace: NS}}
	od.Spec.Selector = metav1.LabelSelector{MatchLabels: map[string]string{"app": name}}
	od.Spec.Template.Metadata.Labels = map[string]string{"app": name}
	od.Spec.Template.Spec = TemplateSpec(phases)
	return od
}

var (
	KOS = func(name string) Key { return Key{pkoGroup, "ObjectSet", NS, name} }
	KPH = func(name string) Key { return Key{pkoGroup, "ObjectSetPhase", NS, name} }
	KOD = func(name string) Key { return Key{pkoGroup, "ObjectDeployment", NS, name} }
	KCM = func(name string) Key { return Key{"", "ConfigMap", NS, name} }
	KW  = func(name string) Key { return Key{gvkWidget.Group, "Widget", NS, name} }
)

// ---- environment actions: direct store manipulations, each one event ----

func (w *World) envEmit(ev string, k Key, pre, post map[string]any, args map[string]any) {
	w.Emit(Event{Actor: "env", Ev: ev, Key: k.String(), Pre: w.Proj.Project(pre), Post: w.Proj.Project(post), Args: args})
}

// EnvCreate creates an object as a user / third party.
func (w *World) EnvCreate(obj client.Object) Key {
	m, gvk, err := w.Client.toMap(obj)
	must(err)
	st := w.Store
	st.mu.Lock()
	k, ki, err := st.keyFor(gvk, getStr(metaOf(m), "namespace"), getStr(metaOf(m), "name"))
	must(err)
	status := m["status"]
	_, err = st.create(k, ki, m, false)
	if err == nil && status != nil && ki.StatusSub {
		st.objs[k]["status"] = normalizeAnyKeepInts(status)
	}
	post := deepCopyMap(st.objs[k])
	st.mu.Unlock()
	if err != nil {
		panic(fmt.Sprintf("EnvCreate %s: %v", k, err))
	}
	w.envEmit("EnvCreate", k, nil, post, nil)
	return k
}

// EnvMutate applies fn to the stored object as a third party (rv bump, generation bump on spec change).
func (w *World) EnvMutate(ev string, k Key, args map[string]any, fn func(m map[string]any)) bool {
	st := w.Store
	st.mu.Lock()
	old, ok := st.objs[k]
	if !ok {
		st.mu.Unlock()
		return false
	}
	pre := deepCopyMap(old)
	m := deepCopyMap(old)
	fn(m)
	ki := st.kinds[schema.GroupKind{Group: k.Group, Kind: k.Kind}]
	_, _, err := st.finishEnv(k, ki, old, m)
	post := deepCopyMap(st.objs[k])
	st.mu.Unlock()
	if err != nil {
		return false
	}
	w.envEmit(ev, k, pre, post, args)
	return true
}

// finishEnv is finish() without admission (the environment is not subject to RejectNames).
func (s *Store) finishEnv(k Key, ki KindInfo, old, m map[string]any) (map[string]any, bool, error) {
	saved := s.RejectNames
	s.RejectNames = map[string]bool{}
	defer func() { s.RejectNames = saved }()
	return s.finish(k, ki, old, m, false)
}

// EnvDelete deletes like `kubectl delete` (finalizers honoured). orphan=true adds the orphan finalizer first.
func (w *World) EnvDelete(k Key, orphan bool) bool {
	st := w.Store
	st.mu.Lock()
	old, ok := st.objs[k]
	if !ok {
		st.mu.Unlock()
		return false
	}
	pre := deepCopyMap(old)
	if orphan {
		md := metaOf(old)
		fl := finalizersOf(old)
		md["finalizers"] = append(fl, "orphan")
	}
	ki := st.kinds[schema.GroupKind{Group: k.Group, Kind: k.Kind}]
	_, _, err := st.del(k, ki, nil, nil, false)
	post := deepCopyMap(st.objs[k])
	st.mu.Unlock()
	if err != nil {
		return false
	}
	w.envEmit("EnvDelete", k, pre, post, map[string]any{"orphan": orphan})
	return true
}

// EnvGC models the garbage collector: background-deletes objects all of whose native owners are gone.
// Returns the keys it deleted.
func (w *World) EnvGC() []Key {
	var out []Key
	for _, k := range w.Store.Keys() {
		m := w.Store.Snapshot(k)
		refs := ownerRefs(m)
		if len(refs) == 0 {
			continue
		}
		alive := false
		for _, r := range refs {
			gv, _ := schema.ParseGroupVersion(r.APIVersion)
			ok := Key{gv.Group, r.Kind, k.NS, r.Name}
			if _, isNs := w.Store.kinds[schema.GroupKind{Group: gv.Group, Kind: r.Kind}]; isNs && !w.Store.kinds[schema.GroupKind{Group: gv.Group, Kind: r.Kind}].Namespaced {
				ok.NS = ""
			}
			om := w.Store.Snapshot(ok)
			if om != nil && getStr(metaOf(om), "uid") == string(r.UID) {
				alive = true
			}
		}
		if !alive {
			if w.envDeleteAs("EnvGC", k) {
				out = append(out, k)
			}
		}
	}
	return out
}

func (w *World) envDeleteAs(ev string, k Key) bool {
	st := w.Store
	st.mu.Lock()
	old, ok := st.objs[k]
	if !ok {
		st.mu.Unlock()
		return false
	}
	pre := deepCopyMap(old)
	ki := st.kinds[schema.GroupKind{Group: k.Group, Kind: k.Kind}]
	_, eff, err := st.del(k, ki, nil, nil, false)
	post := deepCopyMap(st.objs[k])
	st.mu.Unlock()
	if err != nil || eff == "noop" {
		return false
	}
	w.envEmit(ev, k, pre, post, nil)
	return true
}

// Convenience environment actions used by the drivers.

func (w *World) EnvSetWidgetStatus(k Key, class string) bool {
	return w.EnvMutate("EnvSetStatus", k, map[string]any{"class": class}, func(m map[string]any) {
		gen := toInt(metaOf(m)["generation"])
		switch class {
		case "Ready":
			m["status"] = map[string]any{"observedGeneration": gen, "conditions": []any{map[string]any{"type": "Available", "status": "True"}}}
		case "NotReady":
			m["status"] = map[string]any{"observedGeneration": gen, "conditions": []any{map[string]any{"type": "Available", "status": "False"}}}
		case "Stale":
			m["status"] = map[string]any{"observedGeneration": gen - 1, "conditions": []any{map[string]any{"type": "Available", "status": "True"}}}
		case "None":
			delete(m, "status")
		}
	})
}

func (w *World) EnvSetLifecycle(k Key, state string) bool {
	return w.EnvMutate("EnvSetLifecycle", k, map[string]any{"state": state}, func(m map[string]any) {
		spec, _ := m["spec"].(map[string]any)
		if spec == nil {
			spec = map[string]any{}
			m["spec"] = spec
		}
		if state == "Active" {
			delete(spec, "lifecycleState")
		} else {
			spec["lifecycleState"] = state
		}
	})
}

func (w *World) EnvSetPaused(k Key, paused bool) bool {
	return w.EnvMutate("EnvSetPaused", k, map[string]any{"paused": paused}, func(m map[string]any) {
		spec, _ := m["spec"].(map[string]any)
		if paused {
			spec["paused"] = true
		} else {
			delete(spec, "paused")
		}
	})
}

// EnvReown replaces the native owner references by a single foreign controller (or none).
func (w *World) EnvReown(k Key, foreign bool) bool {
	return w.EnvMutate("EnvReown", k, map[string]any{"foreign": foreign}, func(m map[string]any) {
		md := metaOf(m)
		if foreign {
			md["ownerReferences"] = []any{map[string]any{"apiVersion": "v1", "kind": "ConfigMap", "name": "stranger", "uid": "foreign-uid", "controller": true}}
		} else {
			delete(md, "ownerReferences")
		}
	})
}

// EnvLegacyManager makes the object look as if it was last written by a pre-server-side-apply version of the operator
// (or by a plain update / merge patch of one of its managers): a managedFields entry of operation Update.
func (w *World) EnvLegacyManager(k Key) bool {
	return w.EnvMutate("EnvLegacyManager", k, map[string]any{}, func(m map[string]any) {
		metaOf(m)["managedFields"] = []any{map[string]any{
			"manager": "package-operator", "operation": "Update", "apiVersion": getStr(m, "apiVersion"), "time": "2024-01-01T00:00:00Z",
			"fieldsType": "FieldsV1", "fieldsV1": map[string]any{"f:metadata": map[string]any{"f:labels": map[string]any{"f:" + cacheLbl: map[string]any{}}}},
		}}
	})
}

func (w *World) EnvEditContent(k Key, tag string) bool {
	return w.EnvMutate("EnvEdit", k, map[string]any{"tag": tag}, func(m map[string]any) {
		switch k.Kind {
		case "ConfigMap":
			m["data"] = map[string]any{"v": "drift-" + tag}
		default:
			spec, _ := m["spec"].(map[string]any)
			if spec == nil {
				spec = map[string]any{}
				m["spec"] = spec
			}
			// drift on a field PKO manages (server-side apply leaves other managers' extra fields alone)
			spec["size"] = int64(900 + len(tag))
		}
	})
}

func (w *World) EnvDropCacheLabel(k Key) bool {
	return w.EnvMutate("EnvRelabel", k, map[string]any{"drop": true}, func(m map[string]any) {
		if l, ok := metaOf(m)["labels"].(map[string]any); ok {
			delete(l, cacheLbl)
		}
	})
}

func (w *World) EnvSetRevAnnotation(k Key, rev string) bool {
	return w.EnvMutate("EnvSetRev", k, map[string]any{"rev": rev}, func(m map[string]any) {
		md := metaOf(m)
		a, _ := md["annotations"].(map[string]any)
		if a == nil {
			a = map[string]any{}
			md["annotations"] = a
		}
		if rev == "" {
			delete(a, revAnn)
		} else {
			a[revAnn] = rev
		}
	})
}

func (w *World) EnvAddFinalizer(k Key, f string) bool {
	return w.EnvMutate("EnvAddFinalizer", k, map[string]any{"f": f}, func(m map[string]any) {
		md := metaOf(m)
		md["finalizers"] = append(finalizersOf(m), f)
	})
}

func (w *World) EnvRemoveFinalizer(k Key, f string) bool {
	return w.EnvMutate("EnvRemoveFinalizer", k, map[string]any{"f": f}, func(m map[string]any) {
		md := metaOf(m)
		var keep []any
		for _, x := range finalizersOf(m) {
			if x != f {
				keep = append(keep, x)
			}
		}
		md["finalizers"] = keep
	})
}

func (w *World) SetForceAdoption(on bool) {
	if on {
		os.Setenv(constants.ForceAdoptionEnvironmentVariable, "1")
	} else {
		os.Unsetenv(constants.ForceAdoptionEnvironmentVariable)
	}
}

// Reset starts a new scenario inside one trace file: fresh store, fresh controllers.
func (w *World) Reset(name string) {
	w.Store = NewStoreLike(w.Store)
	w.faultSeq = len(name) // the kind of the first injected fault varies with the scenario, deterministically
	w.Dyn.Reset()
	w.SetForceAdoption(false)
	w.TemplateBase = 0
	w.GoneSlices = nil
	w.HyperShift = false
	w.BuildControllers()
	w.Emit(Event{Actor: "sim", Ev: "Reset", Key: "-", Args: map[string]any{"scenario": name}})
	// the namespaces every scenario lives in
	w.EnvCreate(Obj(gvkNamespace, "", NS))
	w.EnvCreate(Obj(gvkNamespace, "", "other"))
}

// EnvSyncCache ends the create-not-yet-visible window.
func (w *World) EnvSyncCache() {
	if n := w.Store.SyncCreates(); n > 0 {
		w.Emit(Event{Actor: "env", Ev: "EnvSyncCache", Key: "-", Args: map[string]any{"n": n}})
	}
}

// Template variants for deployment scenarios.
func TemplateVariant(v int) []PhaseSpec {
	if v >= 4 {
		// the delegated family: the same object sets, some phases handed to the ObjectSetPhase controller - a revision's
		// local phase and another revision's delegated phase (two controllers, running concurrently) share objects
		ps := TemplateVariant(v - 4)
		switch v - 4 {
		case 0, 2:
			ps[0].Class = "default"
		case 1:
			ps[1].Class = "default"
		}
		return ps
	}
	switch v % 4 {
	case 0:
		return []PhaseSpec{
			{Name: "p1", Objects: []*unstructured.Unstructured{ConfigMap("shared", "x"), deepWidget("w1", 1, 1)}},
			{Name: "p2", Objects: []*unstructured.Unstructured{ConfigMap("dropped", "x")}},
		}
	case 1:
		return []PhaseSpec{
			{Name: "p1", Objects: []*unstructured.Unstructured{ConfigMap("shared", "y"), Widget("w1", 2)}},
			{Name: "p2", Objects: []*unstructured.Unstructured{ConfigMap("added", "x")}},
		}
	case 2:
		return []PhaseSpec{
			{Name: "p1", Objects: []*unstructured.Unstructured{ConfigMap("shared", "z")}},
			{Name: "p2", Objects: []*unstructured.Unstructured{Widget("w3", 1)}},
		}
	}
	// variant 3 = variant 0 with ONE value changed, twelve levels deep inside an object
	return []PhaseSpec{
		{Name: "p1", Objects: []*unstructured.Unstructured{ConfigMap("shared", "x"), deepWidget("w1", 1, 2)}},
		{Name: "p2", Objects: []*unstructured.Unstructured{ConfigMap("dropped", "x")}},
	}
}

// deepWidget is a Widget with a value nested deep inside its spec (spec.deep.a.b.c.d.e.f.g.h.i.j).
func deepWidget(name string, size, leaf int64) *unstructured.Unstructured {
	u := Widget(name, size)
	var v any = leaf
	for _, k := range []string{"j", "i", "h", "g", "f", "e", "d", "c", "b", "a"} {
		v = map[string]any{k: v}
	}
	u.Object["spec"].(map[string]any)["deep"] = v
	return u
}

// EnvSetTemplate edits the template of an ObjectDeployment (user action).
func (w *World) EnvSetTemplate(k Key, variant int) bool {
	ts := TemplateSpec(TemplateVariant(variant))
	tm, err := runtime.DefaultUnstructuredConverter.ToUnstructured(&ts)
	must(err)
	return w.EnvMutate("EnvSetTemplate", k, map[string]any{"variant": variant}, func(m map[string]any) {
		spec := nestedMap(m, "spec")
		tmpl, _ := spec["template"].(map[string]any)
		tmpl["spec"] = normalize(tm)
	})
}

// Quiesced emits the final event carrying the projected end state of every object.
func (w *World) StateDigest() []any {
	out := []any{}
	for _, k := range w.Store.Keys() {
		p := w.Proj.Project(w.Store.Snapshot(k))
		out = append(out, map[string]any{"key": k.String(), "p": p})
	}
	return out
}

// CRKeys returns all keys of a PKO kind sorted by name.
func (w *World) CRKeys(kind string) []Key {
	var out []Key
	for _, k := range w.Store.Keys() {
		if k.Group == pkoGroup && k.Kind == kind {
			out = append(out, k)
		}
	}
	sort.Slice(out, func(i, j int) bool { return out[i].Name < out[j].Name })
	return out
}
