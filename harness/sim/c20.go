package verifsim

import (
	"context"
	"errors"
	"flag"
	"fmt"
	"math/rand"
	"reflect"
	"sort"
	"strings"
	"sync"
	"sync/atomic"
	"time"

	"k8s.io/apimachinery/pkg/types"

	"package-operator.run/internal/packages"
)

// C20: the REAL packageimport.RequestManager with a gated pull function.

type c20Result struct {
	caller string
	pkg    *packages.RawPackage
	err    error
}

type c20World struct {
	rm       *packages.RequestManager
	mu       sync.Mutex
	gates    map[string]chan error // image -> release channel of the pull in flight
	active   map[string]int       // pulls currently inside the pull function, per image
	maxAct   map[string]int
	pulls    map[string]int // pulls started per image
	started  chan string    // image of every pull function entry
	results  chan c20Result
	pullSeq  int32
}

func newC20World() *c20World {
	cw := &c20World{gates: map[string]chan error{}, active: map[string]int{}, maxAct: map[string]int{}, pulls: map[string]int{},
		started: make(chan string, 100), results: make(chan c20Result, 100)}
	cw.rm = packages.NewRequestManager(nil, nil, nil, types.NamespacedName{})
	cw.rm.VerifSetPull(func(ctx context.Context, image string) (*packages.RawPackage, error) {
		cw.mu.Lock()
		g := make(chan error, 1)
		cw.gates[image] = g
		cw.active[image]++
		if cw.active[image] > cw.maxAct[image] {
			cw.maxAct[image] = cw.active[image]
		}
		cw.pulls[image]++
		n := atomic.AddInt32(&cw.pullSeq, 1)
		cw.mu.Unlock()
		cw.started <- image
		var err error
		select {
		case err = <-g:
		case <-ctx.Done():
			// like a registry fetch: the pull runs on the context of the caller that started it
			err = ctx.Err()
		}
		cw.mu.Lock()
		cw.active[image]--
		cw.mu.Unlock()
		if err != nil {
			return nil, err
		}
		return &packages.RawPackage{Files: packages.Files{
			"manifest.yaml": []byte(fmt.Sprintf("pull-%d-of-%s", n, image)),
			"obj.yaml":      []byte("kind: ConfigMap"),
			// an empty file as the importers produce it (io.ReadAll: length 0, spare capacity)
			"empty.yaml": make([]byte, 0, 64),
		}}, nil
	})
	return cw
}

func (cw *c20World) waitInFlight(image string, n int) bool {
	for i := 0; i < 2000; i++ {
		if cw.rm.VerifInFlight(image) == n {
			return true
		}
		time.Sleep(200 * time.Microsecond)
	}
	return false
}

// c20Timeouts counts waits for a response that ran into the time limit
var c20Timeouts int

type c20Step struct {
	Op     string `json:"op"` // Req | Release | Cancel (the context of the caller that started the pull in flight is cancelled)
	Caller string `json:"caller"`
	Image  string `json:"image"`
	Fail   bool   `json:"fail"`
}

// aliasing: do two returned packages share the map or a byte slice?
func aliased(a, b *packages.RawPackage) bool {
	if a == nil || b == nil {
		return false
	}
	if a == b || reflect.ValueOf(a.Files).Pointer() == reflect.ValueOf(b.Files).Pointer() {
		return true
	}
	for k, va := range a.Files {
		vb, ok := b.Files[k]
		if !ok {
			continue
		}
		if len(va) > 0 && len(vb) > 0 && &va[0] == &vb[0] {
			return true
		}
		// empty slices with spare capacity: appending in place must not write into the other caller's array
		if cap(va) > 0 && cap(vb) > 0 && &va[:1][0] == &vb[:1][0] {
			return true
		}
	}
	return false
}

func runC20Script(w *World, name string, script []c20Step) {
	w.Emit(Event{Actor: "sim", Ev: "Reset", Key: "-", Args: map[string]any{"scenario": name}})
	cw := newC20World()
	waiting := map[string][]string{} // image -> callers registered for the pull in flight
	cancels := map[string]context.CancelFunc{} // image -> cancel of the caller that started the pull in flight
	for _, st := range script {
		switch st.Op {
		case "Req":
			before := cw.rm.VerifInFlight(st.Image)
			ctx, cancel := context.WithCancel(context.Background())
			if before == -1 {
				cancels[st.Image] = cancel
			}
			go func(c, img string) {
				p, err := cw.rm.Pull(ctx, img)
				cw.results <- c20Result{c, p, err}
			}(st.Caller, st.Image)
			startedPull := false
			ok := true
			if before == -1 {
				select {
				case img := <-cw.started:
					startedPull = img == st.Image
				case <-time.After(2 * time.Second):
					ok = false
				}
				ok = ok && cw.waitInFlight(st.Image, 1)
			} else {
				ok = cw.waitInFlight(st.Image, before+1)
				select {
				case <-cw.started:
					startedPull = true
				default:
				}
			}
			waiting[st.Image] = append(waiting[st.Image], st.Caller)
			w.Emit(Event{Actor: "c20", Ev: "C20Req", Key: st.Image, Res: map[bool]string{true: "ok", false: "timeout"}[ok],
				Args: map[string]any{"caller": st.Caller, "image": st.Image, "startedPull": startedPull, "inFlightBefore": before >= 0}})
		case "Release", "Cancel":
			cw.mu.Lock()
			g := cw.gates[st.Image]
			delete(cw.gates, st.Image)
			cw.mu.Unlock()
			if st.Op == "Cancel" {
				st.Fail = true // a cancelled pull is a failed pull: every waiting caller gets exactly one (error) response
			}
			if g == nil {
				w.Emit(Event{Actor: "c20", Ev: "C20Release", Key: st.Image, Res: "nopull",
					Args: map[string]any{"image": st.Image, "fail": st.Fail, "returned": []any{}, "aliased": false, "entryCleared": true}})
				continue
			}
			switch {
			case st.Op == "Cancel" && cancels[st.Image] != nil:
				cancels[st.Image]()
			case st.Fail:
				g <- errors.New("scripted pull failure")
			default:
				g <- nil
			}
			delete(cancels, st.Image)
			var got []c20Result
			timeout := time.After(2 * time.Second)
			for len(got) < len(waiting[st.Image]) {
				select {
				case r := <-cw.results:
					got = append(got, r)
				case <-timeout:
					c20Timeouts++
					goto done
				}
			}
		done:
			// nobody else may return
			select {
			case r := <-cw.results:
				got = append(got, r)
			case <-time.After(2 * time.Millisecond):
			}
			al := false
			ret := []any{}
			sort.Slice(got, func(i, j int) bool { return got[i].caller < got[j].caller })
			for i, r := range got {
				for j := i + 1; j < len(got); j++ {
					al = al || aliased(r.pkg, got[j].pkg)
				}
				content := ""
				if r.pkg != nil {
					content = string(r.pkg.Files["manifest.yaml"])
				}
				// the scripted pull stamps the content with the image it was called for
				ret = append(ret, map[string]any{"caller": r.caller, "err": r.err != nil, "hasPkg": r.pkg != nil, "content": content,
					"ofImage": r.pkg == nil || strings.HasSuffix(content, "-of-"+st.Image)})
			}
			// mutation test: scribbling over one caller's copy must not change another's
			if len(got) > 1 && got[0].pkg != nil && got[1].pkg != nil {
				for k, v := range got[0].pkg.Files {
					for i := range v {
						v[i] = 'X'
					}
					delete(got[0].pkg.Files, k)
				}
				if string(got[1].pkg.Files["obj.yaml"]) != "kind: ConfigMap" {
					al = true
				}
			}
			cleared := cw.waitInFlight(st.Image, -1)
			waiting[st.Image] = nil
			w.Emit(Event{Actor: "c20", Ev: "C20Release", Key: st.Image, Args: map[string]any{"image": st.Image, "fail": st.Fail, "returned": ret,
				"aliased": al, "entryCleared": cleared}})
		}
	}
	// end of script: release every pull still in flight so that no goroutine is left behind
	cw.mu.Lock()
	for _, g := range cw.gates {
		g <- nil
	}
	cw.mu.Unlock()
	maxAct := map[string]any{}
	pulls := map[string]any{}
	for k, v := range cw.maxAct {
		maxAct[k] = v
	}
	for k, v := range cw.pulls {
		pulls[k] = v
	}
	w.Emit(Event{Actor: "c20", Ev: "C20End", Key: "-", Args: map[string]any{"maxActive": maxAct, "pulls": pulls}})
}

func init() {
	extraDrivers["c20-script"] = func(w *World, _ *flag.FlagSet, a driverArgs) int {
		// enumerate scripts: every sequence of length a.steps over Req(c,img) / Release(img,fail) for 3 callers x 2 images
		callers := []string{"c1", "c2", "c3"}
		images := []string{"quay.io/verif/app:v1", "quay.io/verif/app:v2"}
		var alpha []c20Step
		for _, c := range callers {
			for _, i := range images {
				alpha = append(alpha, c20Step{Op: "Req", Caller: c, Image: i})
			}
		}
		for _, i := range images {
			alpha = append(alpha, c20Step{Op: "Release", Image: i}, c20Step{Op: "Release", Image: i, Fail: true}, c20Step{Op: "Cancel", Image: i})
		}
		var scripts [][]c20Step
		if a.mode == "enum" {
			var rec func(p []c20Step)
			rec = func(p []c20Step) {
				if len(p) == a.steps {
					scripts = append(scripts, append([]c20Step{}, p...))
					return
				}
				for _, s := range alpha {
					// a caller blocked in Pull cannot issue another request
					if s.Op == "Req" {
						busy := false
						for _, q := range p {
							if q.Op == "Req" && q.Caller == s.Caller {
								busy = true
							}
							if q.Op != "Req" && busy {
								// released if the caller waited on that image
								for _, q2 := range p {
									if q2.Op == "Req" && q2.Caller == s.Caller && q2.Image == q.Image {
										busy = false
									}
								}
							}
						}
						if busy {
							continue
						}
					}
					rec(append(p, s))
				}
			}
			rec(nil)
		} else {
			rng := rand.New(rand.NewSource(a.seed))
			for i := 0; i < a.n; i++ {
				var p []c20Step
				busy := map[string]string{}
				for j := 0; j < a.steps; j++ {
					s := alpha[rng.Intn(len(alpha))]
					if s.Op == "Req" {
						if busy[s.Caller] != "" {
							continue
						}
						busy[s.Caller] = s.Image
					} else {
						for c, img := range busy {
							if img == s.Image {
								delete(busy, c)
							}
						}
					}
					p = append(p, s)
				}
				scripts = append(scripts, p)
			}
		}
		for i, s := range scripts {
			if i%a.shards != a.shard {
				continue
			}
			// watchdog: a manager that deadlocks (e.g. a blocked broadcast under the lock) must not hang the driver
			name := fmt.Sprintf("c20-script-%d", i)
			done := make(chan struct{})
			go func() { defer close(done); runC20Script(w, name, s) }()
			select {
			case <-done:
			case <-time.After(30 * time.Second):
				w.Emit(Event{Actor: "c20", Ev: "C20Hang", Key: "-", Res: "timeout", Args: map[string]any{"scenario": name}})
				return 0 // the script's goroutines are lost; stop here, the recorded events show the hang
			}
			if c20Timeouts >= 12 {
				// callers keep missing their responses (each costs a 2 s wait): the recorded scripts already show it,
				// running thousands more would only take hours
				break
			}
		}
		return 0
	}
	// c20-stress: free-running goroutines, pulls return after random short delays
	extraDrivers["c20-stress"] = func(w *World, _ *flag.FlagSet, a driverArgs) int {
		for i := 0; i < a.n; i++ {
			if i%a.shards != a.shard {
				continue
			}
			w.Emit(Event{Actor: "sim", Ev: "Reset", Key: "-", Args: map[string]any{"scenario": fmt.Sprintf("c20-stress-%d", i)}})
			cw := newC20World()
			stop := make(chan struct{})
			go func() { // releaser
				rng := rand.New(rand.NewSource(a.seed + int64(i)))
				for {
					select {
					case <-stop:
						return
					case <-cw.started:
					default:
					}
					cw.mu.Lock()
					for img, g := range cw.gates {
						if rng.Intn(3) == 0 {
							if rng.Intn(4) == 0 {
								g <- errors.New("scripted pull failure")
							} else {
								g <- nil
							}
							delete(cw.gates, img)
						}
					}
					cw.mu.Unlock()
					time.Sleep(50 * time.Microsecond)
				}
			}()
			var wg sync.WaitGroup
			var responses, bad int32
			for c := 0; c < 8; c++ {
				wg.Add(1)
				go func(c int) {
					defer wg.Done()
					rng := rand.New(rand.NewSource(a.seed*100 + int64(i*10+c)))
					for j := 0; j < a.steps; j++ {
						img := []string{"quay.io/verif/app:v1", "quay.io/verif/app:v2"}[rng.Intn(2)]
						p, err := cw.rm.Pull(context.Background(), img)
						atomic.AddInt32(&responses, 1)
						if (p == nil) == (err == nil) {
							atomic.AddInt32(&bad, 1)
						}
						if p != nil {
							for _, v := range p.Files { // private copy: free to mutate
								for x := range v {
									v[x] = byte('a' + c)
								}
							}
							for _, v := range p.Files {
								for x := range v {
									if v[x] != byte('a'+c) {
										atomic.AddInt32(&bad, 1)
									}
								}
							}
						}
					}
				}(c)
			}
			done := make(chan struct{})
			go func() { wg.Wait(); close(done) }()
			lost := false
			select {
			case <-done:
			case <-time.After(20 * time.Second):
				lost = true
			}
			close(stop)
			cw.mu.Lock()
			maxAct := 0
			for _, v := range cw.maxAct {
				if v > maxAct {
					maxAct = v
				}
			}
			cw.mu.Unlock()
			w.Emit(Event{Actor: "c20", Ev: "C20Stress", Key: "-", Args: map[string]any{"responses": int(responses), "expected": 8 * a.steps,
				"bad": int(bad), "maxActivePerImage": maxAct, "lostWakeup": lost}})
		}
		return 0
	}
}
