package verifsim

import (
	"encoding/json"
	"flag"
	"fmt"
	"math/rand"

	metav1 "k8s.io/apimachinery/pkg/apis/meta/v1"
	"k8s.io/apimachinery/pkg/apis/meta/v1/unstructured"
	"k8s.io/apimachinery/pkg/types"

	corev1alpha1 "package-operator.run/apis/core/v1alpha1"
)

// Preflight table (C11): phase contents mixing valid objects with each class of violating object at
// every position × owner flavour × rollout/teardown.

var pfClasses = []string{"valid", "unknownAPI", "presetOwner", "foreignNS", "clusterNoNS", "clusterOwnNS", "dryReject", "dup", "dupver", "dry500", "dry429"}

type PFRow struct {
	Flavour  string   // os | cos | ph
	P1       []string // classes of phase 1 objects
	P2       []string // classes of phase 2 objects (os/cos only)
	Teardown bool
}

func PFRows() []PFRow {
	var seqs [][]string
	for _, a := range pfClasses {
		seqs = append(seqs, []string{a})
		for _, b := range pfClasses {
			seqs = append(seqs, []string{a, b})
			for _, c := range pfClasses {
				seqs = append(seqs, []string{a, b, c})
			}
		}
	}
	var rows []PFRow
	for _, fl := range []string{"os", "cos", "ph"} {
		for _, td := range []bool{false, true} {
			for _, s := range seqs {
				if fl == "ph" {
					hasDup := false
					for _, c := range s {
						hasDup = hasDup || c == "dup" || c == "dupver"
					}
					if hasDup {
						continue
					}
					rows = append(rows, PFRow{fl, s, nil, td})
					continue
				}
				// position matters in both phases: violating content in phase 1 with a valid phase 2 and vice versa
				rows = append(rows, PFRow{fl, s, []string{"valid"}, td})
				rows = append(rows, PFRow{fl, []string{"valid"}, s, td})
			}
		}
	}
	return rows
}

func pfObject(class string, idx int, flavour string) *unstructured.Unstructured {
	ownerNS := NS
	if flavour == "cos" {
		ownerNS = ""
	}
	name := fmt.Sprintf("o%d", idx)
	var u *unstructured.Unstructured
	switch class {
	case "valid":
		u = ConfigMap(name, "x")
		if flavour == "cos" {
			u.SetNamespace(NS)
		}
	case "unknownAPI":
		u = Obj(gvkGhost, "", name)
		if flavour == "cos" {
			u.SetNamespace(NS)
		}
	case "presetOwner":
		u = ConfigMap(name, "x")
		if flavour == "cos" {
			u.SetNamespace(NS)
		}
		t := true
		u.SetOwnerReferences([]metav1.OwnerReference{{APIVersion: "v1", Kind: "ConfigMap", Name: "someone", UID: "someone-uid", Controller: &t}})
	case "foreignNS":
		u = ConfigMap(name, "x")
		u.SetNamespace("other")
	case "clusterNoNS":
		u = Obj(gvkClusterThing, "", name)
		u.Object["spec"] = map[string]any{"size": int64(1)}
	case "clusterOwnNS":
		u = Obj(gvkClusterThing, ownerNS, name)
		u.Object["spec"] = map[string]any{"size": int64(1)}
	case "dryReject":
		u = ConfigMap("reject-"+name, "x")
		if flavour == "cos" {
			u.SetNamespace(NS)
		}
	case "dry500", "dry429":
		u = ConfigMap(class+"-"+name, "x")
		if flavour == "cos" {
			u.SetNamespace(NS)
		}
	case "dup":
		u = ConfigMap("dupe", "x")
		if flavour == "cos" {
			u.SetNamespace(NS)
		}
	case "dupver", "dupver2":
		// the same object listed under two served versions of its API: one object for the API server
		u = Widget("dupev", 1)
		if flavour == "cos" {
			u.SetNamespace(NS)
		}
		if class == "dupver2" {
			u.SetAPIVersion(gvkWidget.Group + "/v2")
		}
	}
	return u
}

func runPFRow(w *World, i int, r PFRow) {
	w.AnnotationPhases = false
	w.Reset(fmt.Sprintf("row-pf-%d", i))
	st := w.Store
	// dup: the duplicated object also appears (validly) in an extra first phase
	classes := map[string]any{}
	var p1, p2 []*unstructured.Unstructured
	idx := 0
	hasDup, dupClass := false, ""
	mk := func(cs []string) []*unstructured.Unstructured {
		var out []*unstructured.Unstructured
		for _, c := range cs {
			idx++
			u := pfObject(c, idx, r.Flavour)
			ownerNS := NS
			if r.Flavour == "cos" {
				ownerNS = ""
			}
			k := KeyOf(u, ownerNS)
			if ki, ok := st.kinds[u.GroupVersionKind().GroupKind()]; ok && !ki.Namespaced {
				// the key the API server will use (scope rule)
				k.NS = ""
			}
			if c == "dryReject" {
				st.RejectNames[u.GetName()] = true
			}
			if c == "dup" || c == "dupver" {
				hasDup = true
				dupClass = c
			}
			if c == "dry500" {
				st.DryRunErr[u.GetName()] = "InternalError"
			}
			if c == "dry429" {
				st.DryRunErr[u.GetName()] = "TooManyRequests"
			}
			classes[k.String()] = c
			out = append(out, u)
		}
		return out
	}
	p1 = mk(r.P1)
	p2 = mk(r.P2)
	phases := []PhaseSpec{{Name: "p1", Objects: p1}}
	if r.Flavour != "ph" {
		phases = append(phases, PhaseSpec{Name: "p2", Objects: p2})
		if hasDup {
			// the second occurrence of the duplicate
			second := dupClass
			if second == "dupver" {
				second = "dupver2"
			}
			phases = append(phases, PhaseSpec{Name: "p3", Objects: []*unstructured.Unstructured{pfObject(second, 0, r.Flavour)}})
		}
	}
	rowJSON, _ := json.Marshal(r)
	w.Emit(Event{Actor: "sim", Ev: "Row", Key: "-", Args: map[string]any{"row": i, "desc": string(rowJSON), "classes": classes,
		"flavour": r.Flavour, "hasDup": hasDup}})

	var ownerKey Key
	var actor string
	switch r.Flavour {
	case "os":
		ownerKey = w.EnvCreate(NewObjectSet("a1", phases))
		actor = "os"
	case "cos":
		cos := &corev1alpha1.ClusterObjectSet{ObjectMeta: metav1.ObjectMeta{Name: "a1"}}
		cos.Spec.ObjectSetTemplateSpec = TemplateSpec(phases)
		ownerKey = w.EnvCreate(cos)
		actor = "cos"
	case "ph":
		ph := &corev1alpha1.ObjectSetPhase{ObjectMeta: metav1.ObjectMeta{Name: "a1-p1", Namespace: NS,
			Labels: map[string]string{corev1alpha1.ObjectSetPhaseClassLabel: "default"}}}
		ph.Spec.Revision = 1
		ph.Spec.AvailabilityProbes = StdProbes()
		ph.Spec.Objects = toPhases(phases)[0].Objects
		ownerKey = w.EnvCreate(ph)
		actor = "ph"
	}
	if !r.Teardown {
		w.RunPass(actor, ownerKey)
		w.RunPass(actor, ownerKey)
		return
	}
	// teardown: every listed object that can exist pre-exists under the owner's control, as a previous
	// (more permissive or buggy) version of the operator might have left it; then the owner is deleted.
	w.RunPass(actor, ownerKey) // adds the finalizer, rolls out what preflight admits
	om := w.Store.Snapshot(ownerKey)
	ouid := getStr(metaOf(om), "uid")
	for _, ph := range phases {
		for _, o := range ph.Objects {
			gk := o.GroupVersionKind().GroupKind()
			if _, ok := st.kinds[gk]; !ok {
				continue
			}
			u := o.DeepCopy()
			if u.GetNamespace() == "" && st.kinds[gk].Namespaced {
				u.SetNamespace(NS)
			}
			k := KeyOf(u, "")
			if !st.kinds[gk].Namespaced {
				k.NS = ""
			}
			if w.Store.Snapshot(k) != nil {
				continue
			}
			t := true
			u.SetOwnerReferences([]metav1.OwnerReference{{APIVersion: corev1alpha1.GroupVersion.String(), Kind: ownerKey.Kind, Name: ownerKey.Name,
				UID: "x", Controller: &t}})
			refs := u.GetOwnerReferences()
			refs[0].UID = types.UID(ouid)
			u.SetOwnerReferences(refs)
			u.SetLabels(map[string]string{cacheLbl: "True"})
			u.SetAnnotations(map[string]string{revAnn: "1"})
			saved := st.RejectNames
			st.RejectNames = map[string]bool{}
			w.EnvCreate(u)
			st.RejectNames = saved
		}
	}
	w.EnvDelete(ownerKey, false)
	for j := 0; j < 4; j++ {
		w.RunPass(actor, ownerKey)
	}
}

func init() {
	extraDrivers["preflight-table"] = func(w *World, _ *flag.FlagSet, a driverArgs) int {
		rows := PFRows()
		idx := make([]int, len(rows))
		for i := range idx {
			idx[i] = i
		}
		if a.n > 0 && a.n < len(rows) {
			rng := rand.New(rand.NewSource(a.seed))
			rng.Shuffle(len(idx), func(i, j int) { idx[i], idx[j] = idx[j], idx[i] })
			idx = idx[:a.n]
		}
		for c, i := range idx {
			if c%a.shards != a.shard {
				continue
			}
			runPFRow(w, i, rows[i])
		}
		return 0
	}
}
