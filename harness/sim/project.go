package verifsim

import (
	"encoding/json"
	"fmt"
	"hash/fnv"
	"sort"
	"strconv"
	"strings"

	"k8s.io/apimachinery/pkg/apis/meta/v1/unstructured"
)

// OwnerP is one owner entry of a projection.
type OwnerP struct {
	ID   string `json:"id"`  // Kind/name
	UID  string `json:"uid"` // uid recorded in the reference
	Ctrl bool   `json:"ctrl"`
}

// CondP is a condition of a PKO CR.
type CondP struct {
	Type   string `json:"type"`
	Status string `json:"status"`
	Reason string `json:"reason"`
	Cur    bool   `json:"cur"` // observedGeneration == metadata.generation
	Msg    string `json:"msg"`
}

// PhaseP is a phase of an ObjectSet / ObjectSetPhase spec.
type PhaseP struct {
	Name   string   `json:"name"`
	Class  string   `json:"class"`
	Keys   []string `json:"keys"` // object keys (namespace defaulted to the owner's)
	CPs    []string `json:"cps"`  // collision protection per object
	Maps   []string `json:"maps"` // per object: destination type of its condition mapping (source type Available), "" = none
	Slices []string `json:"slices"` // keys of the ObjectSlice objects
	PhaseKey string `json:"phaseKey"` // key of the ObjectSetPhase object realising this phase when delegated
}

// CRP is the projection of PKO's own control fields (zero value for other objects).
type CRP struct {
	Lifecycle    string   `json:"lifecycle"` // Active|Paused|Archived|"" (phase: Paused/Active from spec.paused)
	Revision     int64    `json:"revision"`  // status.revision (ObjectSet) / spec.revision (phase)
	Previous     []string `json:"previous"`
	Phases       []PhaseP `json:"phases"`
	Conds        []CondP  `json:"conds"`
	ControllerOf []string `json:"controllerOf"`
	COfNil       bool     `json:"cofNil"` // controllerOf absent (not reported)
	RemotePhases []OwnerP `json:"remotePhases"`
	PausedByPar  bool     `json:"pausedByParent"`
	Hash         string   `json:"hash"`      // hash annotation (ObjectSet) / status.templateHash (deployment)
	TmplHash     string   `json:"tmplHash"`  // abstract hash of the template (deployment) or spec (set)
	Collisions   int64    `json:"collisions"`
	Paused       bool     `json:"paused"`    // spec.paused (deployment / package / phase)
	HistLimit    int64    `json:"histLimit"` // -1 = unset
	Objects      []string `json:"objects"`   // ObjectSlice: keys
	Class        string   `json:"class"`     // ObjectSetPhase class label
	DepKey       string   `json:"depKey"`    // ObjectSet: key of the controlling ObjectDeployment ("" if none)
}

// Proj is the abstract state of one API object — exactly the fields of ObjRec in spec/Store.tla.
type Proj struct {
	Exists   bool     `json:"exists"`
	Kind     string   `json:"kind"`
	OID      string   `json:"oid"` // Kind/name — how owner references name this object
	UID      string   `json:"uid"`
	RV       int64    `json:"rv"`
	Gen      int64    `json:"gen"`
	NS       string   `json:"ns"`
	Owners   []OwnerP `json:"owners"`
	AOwners  []OwnerP `json:"aowners"` // owners annotation (annotation strategy)
	Rev      int64    `json:"rev"`     // revision annotation, 0 = absent
	Cache    bool     `json:"cache"`   // dynamic cache label present
	PkoLabel bool     `json:"pkoLabel"`
	Fin      []string `json:"fin"`
	Deleting bool     `json:"deleting"`
	Spec     string   `json:"spec"`  // content class (hash of non-metadata, non-status fields + user labels/annotations)
	Probe    string   `json:"probe"` // status class for the standard probe: Ready|NotReady|Stale|None
	CR       CRP      `json:"cr"`
	Key      string   `json:"key"` // the object's own key
	Data     map[string]string `json:"data"` // ConfigMap data (small test objects only)
}

func (p *Proj) fill() {
	if p.Owners == nil {
		p.Owners = []OwnerP{}
	}
	if p.AOwners == nil {
		p.AOwners = []OwnerP{}
	}
	if p.Fin == nil {
		p.Fin = []string{}
	}
	c := &p.CR
	if c.Previous == nil {
		c.Previous = []string{}
	}
	if c.Phases == nil {
		c.Phases = []PhaseP{}
	}
	for i := range c.Phases {
		if c.Phases[i].Keys == nil {
			c.Phases[i].Keys = []string{}
		}
		if c.Phases[i].CPs == nil {
			c.Phases[i].CPs = []string{}
		}
		if c.Phases[i].Slices == nil {
			c.Phases[i].Slices = []string{}
		}
	}
	if c.Conds == nil {
		c.Conds = []CondP{}
	}
	if c.ControllerOf == nil {
		c.ControllerOf = []string{}
	}
	if c.RemotePhases == nil {
		c.RemotePhases = []OwnerP{}
	}
	if c.Objects == nil {
		c.Objects = []string{}
	}
	if p.Probe == "" {
		p.Probe = "None"
	}
	if p.Data == nil {
		p.Data = map[string]string{}
	}
}

// Projector computes projections; ClusterScoped tells whether a kind is cluster-scoped on the
// simulated API server (object keys in phase listings are the keys the API server will use).
type Projector struct {
	ClusterScoped func(group, kind string) bool
}

var theProjector *Projector

const (
	revAnn    = "package-operator.run/revision"
	ownersAnn = "package-operator.run/owners"
	cacheLbl  = "package-operator.run/cache"
	pkgLbl    = "package-operator.run/package"
	pkoGroup  = "package-operator.run"
)

func shortHash(v any) string {
	b, _ := json.Marshal(v)
	h := fnv.New32a()
	h.Write(b)
	return fmt.Sprintf("%08x", h.Sum32())
}

func nestedMap(m map[string]any, path ...string) map[string]any {
	cur := m
	for _, p := range path {
		n, ok := cur[p].(map[string]any)
		if !ok {
			return nil
		}
		cur = n
	}
	return cur
}

func toInt(v any) int64 {
	switch t := v.(type) {
	case int64:
		return t
	case float64:
		return int64(t)
	case int:
		return int64(t)
	case int32:
		return int64(t)
	}
	return 0
}

// Project computes the abstract state of a stored object (nil ⇒ absent).
func (pr *Projector) Project(m map[string]any) Proj {
	var p Proj
	if m == nil {
		p.fill()
		return p
	}
	u := unstructured.Unstructured{Object: m}
	p.Exists = true
	{
		gvk := u.GroupVersionKind()
		p.Key = Key{gvk.Group, gvk.Kind, u.GetNamespace(), u.GetName()}.String()
	}
	p.Kind = u.GetKind()
	p.OID = u.GetKind() + "/" + u.GetName()
	p.UID = string(u.GetUID())
	p.RV, _ = strconv.ParseInt(u.GetResourceVersion(), 10, 64)
	p.Gen = u.GetGeneration()
	p.NS = u.GetNamespace()
	for _, o := range u.GetOwnerReferences() {
		p.Owners = append(p.Owners, OwnerP{ID: o.Kind + "/" + o.Name, UID: string(o.UID), Ctrl: o.Controller != nil && *o.Controller})
	}
	ann := u.GetAnnotations()
	if a := ann[ownersAnn]; a != "" {
		var refs []struct {
			Kind, Name, UID string
			Controller      *bool
		}
		if err := json.Unmarshal([]byte(a), &refs); err == nil {
			for _, r := range refs {
				p.AOwners = append(p.AOwners, OwnerP{ID: r.Kind + "/" + r.Name, UID: r.UID, Ctrl: r.Controller != nil && *r.Controller})
			}
		}
	}
	if r := ann[revAnn]; r != "" {
		p.Rev, _ = strconv.ParseInt(r, 10, 64)
	}
	lbl := u.GetLabels()
	_, p.Cache = lbl[cacheLbl]
	p.PkoLabel = lbl[pkgLbl] == "package-operator"
	p.Fin = append([]string{}, u.GetFinalizers()...)
	p.Deleting = u.GetDeletionTimestamp() != nil
	// content class: everything a desired object can carry, minus what PKO itself stamps
	userLbl := map[string]string{}
	for k, v := range lbl {
		if k != cacheLbl {
			userLbl[k] = v
		}
	}
	userAnn := map[string]string{}
	for k, v := range ann {
		if k != revAnn && k != ownersAnn {
			userAnn[k] = v
		}
	}
	p.Spec = shortHash([]any{specPart(m), userLbl, userAnn})
	p.Probe = probeClass(m)
	if u.GetKind() == "ConfigMap" || u.GetKind() == "Secret" {
		if d, ok := m["data"].(map[string]any); ok && len(d) <= 4 {
			p.Data = map[string]string{}
			for k, v := range d {
				sv, _ := v.(string)
				if len(sv) > 64 {
					// large values are projected to a digest (the content hash of the object is projected separately)
					sv = fmt.Sprintf("%s...#%s", sv[:8], shortHash(sv))
				}
				p.Data[k] = sv
			}
		}
	}
	if u.GetKind() == "Widget" {
		// a Widget used as an ObjectTemplate source: the value read from .status.a
		if st, ok := m["status"].(map[string]any); ok {
			if a, ok := st["a"].(string); ok {
				p.Data = map[string]string{"a": a}
			}
		}
	}
	if u.GroupVersionKind().Group == pkoGroup {
		p.CR = projectCR(&u)
	}
	p.fill()
	return p
}

// probeClass classifies the status for the harness's standard availability probe
// (condition Available=True, honouring status.observedGeneration and the condition's own).
func probeClass(m map[string]any) string {
	st := nestedMap(m, "status")
	if st == nil {
		return "None"
	}
	gen := toInt(metaOf(m)["generation"])
	if og, ok := st["observedGeneration"]; ok && toInt(og) != gen {
		return "Stale"
	}
	conds, _ := st["conditions"].([]any)
	for _, c := range conds {
		cm, _ := c.(map[string]any)
		if cm == nil || getStr(cm, "type") != "Available" {
			continue
		}
		if og, ok := cm["observedGeneration"]; ok && toInt(og) != gen {
			return "Stale"
		}
		if getStr(cm, "status") == "True" {
			return "Ready"
		}
		return "NotReady"
	}
	return "None"
}

func objKeyOf(obj map[string]any, defaultNS string) string {
	u := unstructured.Unstructured{Object: obj}
	ns := u.GetNamespace()
	if ns == "" {
		ns = defaultNS
	}
	k := Key{Group: u.GroupVersionKind().Group, Kind: u.GetKind(), NS: ns, Name: u.GetName()}
	if theProjector != nil && theProjector.ClusterScoped != nil && theProjector.ClusterScoped(k.Group, k.Kind) {
		k.NS = ""
	}
	return k.String()
}

func projectPhases(phases []any, ns string, ownerKind, ownerName string) []PhaseP {
	var out []PhaseP
	for _, ph := range phases {
		pm, _ := ph.(map[string]any)
		pp := PhaseP{Name: getStr(pm, "name"), Class: getStr(pm, "class")}
		objs, _ := pm["objects"].([]any)
		for _, o := range objs {
			om, _ := o.(map[string]any)
			obj, _ := om["object"].(map[string]any)
			pp.Keys = append(pp.Keys, objKeyOf(obj, ns))
			cp := getStr(om, "collisionProtection")
			if cp == "" {
				cp = "Prevent"
			}
			pp.CPs = append(pp.CPs, cp)
			dest := ""
			if cms, _ := om["conditionMappings"].([]any); len(cms) > 0 {
				dest = getStr(cms[0].(map[string]any), "destinationType")
			}
			pp.Maps = append(pp.Maps, dest)
		}
		if pp.Maps == nil {
			pp.Maps = []string{}
		}
		sl, _ := pm["slices"].([]any)
		slKind := "ObjectSlice"
		if strings.HasPrefix(ownerKind, "Cluster") {
			slKind = "ClusterObjectSlice"
		}
		for _, s := range sl {
			str, _ := s.(string)
			pp.Slices = append(pp.Slices, Key{Group: pkoGroup, Kind: slKind, NS: ns, Name: str}.String())
		}
		phKind := "ObjectSetPhase"
		if strings.HasPrefix(ownerKind, "Cluster") {
			phKind = "ClusterObjectSetPhase"
		}
		pp.PhaseKey = Key{Group: pkoGroup, Kind: phKind, NS: ns, Name: ownerName + "-" + pp.Name}.String()
		out = append(out, pp)
	}
	return out
}

func projectCR(u *unstructured.Unstructured) CRP {
	var c CRP
	c.HistLimit = -1
	m := u.Object
	spec := nestedMap(m, "spec")
	status := nestedMap(m, "status")
	gen := u.GetGeneration()
	ns := u.GetNamespace()
	if conds, ok := status["conditions"].([]any); ok {
		for _, x := range conds {
			cm, _ := x.(map[string]any)
			c.Conds = append(c.Conds, CondP{
				Type: getStr(cm, "type"), Status: getStr(cm, "status"), Reason: getStr(cm, "reason"),
				Cur: toInt(cm["observedGeneration"]) == gen, Msg: getStr(cm, "message"),
			})
		}
		sort.Slice(c.Conds, func(i, j int) bool { return c.Conds[i].Type < c.Conds[j].Type })
	}
	cof, has := status["controllerOf"].([]any)
	c.COfNil = !has
	for _, x := range cof {
		cm, _ := x.(map[string]any)
		k := Key{Group: getStr(cm, "group"), Kind: getStr(cm, "kind"), NS: getStr(cm, "namespace"), Name: getStr(cm, "name")}
		c.ControllerOf = append(c.ControllerOf, k.String())
	}
	kind := u.GetKind()
	switch kind {
	case "ObjectSet", "ClusterObjectSet":
		c.Lifecycle = getStr(spec, "lifecycleState")
		if c.Lifecycle == "" {
			c.Lifecycle = "Active"
		}
		c.Revision = toInt(status["revision"])
		if prev, ok := spec["previous"].([]any); ok {
			for _, x := range prev {
				c.Previous = append(c.Previous, Key{Group: pkoGroup, Kind: kind, NS: ns, Name: getStr(x.(map[string]any), "name")}.String())
			}
		}
		ph, _ := spec["phases"].([]any)
		c.Phases = projectPhases(ph, ns, kind, u.GetName())
		if rp, ok := status["remotePhases"].([]any); ok {
			for _, x := range rp {
				xm := x.(map[string]any)
				c.RemotePhases = append(c.RemotePhases, OwnerP{ID: kind + "Phase/" + getStr(xm, "name"), UID: getStr(xm, "uid")})
			}
		}
		for _, o := range u.GetOwnerReferences() {
			if o.Controller != nil && *o.Controller && (o.Kind == "ObjectDeployment" || o.Kind == "ClusterObjectDeployment") {
				c.DepKey = Key{pkoGroup, o.Kind, ns, o.Name}.String()
			}
		}
		c.PausedByPar = u.GetAnnotations()["package-operator.run/paused-by-parent"] == "true"
		c.Hash = u.GetAnnotations()["package-operator.run/hash"]
		c.TmplHash = shortHash([]any{spec["phases"], spec["availabilityProbes"], spec["successDelaySeconds"]})
	case "ObjectSetPhase", "ClusterObjectSetPhase":
		c.Lifecycle = "Active"
		if b, _ := spec["paused"].(bool); b {
			c.Lifecycle = "Paused"
			c.Paused = true
		}
		c.Revision = toInt(spec["revision"])
		if prev, ok := spec["previous"].([]any); ok {
			for _, x := range prev {
				c.Previous = append(c.Previous, Key{Group: pkoGroup, Kind: strings.TrimSuffix(kind, "Phase"), NS: ns, Name: getStr(x.(map[string]any), "name")}.String())
			}
		}
		objs, _ := spec["objects"].([]any)
		c.Phases = projectPhases([]any{map[string]any{"name": "", "objects": objs}}, ns, kind, u.GetName())
		c.Class = u.GetLabels()["package-operator.run/phase-class"]
	case "ObjectDeployment", "ClusterObjectDeployment":
		c.Paused, _ = spec["paused"].(bool)
		tmpl := nestedMap(spec, "template")
		tspec := nestedMap(tmpl, "spec")
		ph, _ := tspec["phases"].([]any)
		c.Phases = projectPhases(ph, ns, kind, u.GetName())
		c.TmplHash = shortHash([]any{tspec["phases"], tspec["availabilityProbes"], tspec["successDelaySeconds"]})
		c.Hash = getStr(status, "templateHash")
		c.Revision = toInt(status["revision"])
		c.Collisions = toInt(status["collisionCount"])
		if hl, ok := spec["revisionHistoryLimit"]; ok {
			c.HistLimit = toInt(hl)
		}
	case "ObjectSlice", "ClusterObjectSlice":
		objs, _ := m["objects"].([]any)
		ph := projectPhases([]any{map[string]any{"name": "", "objects": objs}}, ns, kind, u.GetName())
		if len(ph) == 1 {
			c.Objects = ph[0].Keys
		}
		c.TmplHash = shortHash(objs)
	case "Package", "ClusterPackage":
		c.Paused, _ = spec["paused"].(bool)
		c.Hash = getStr(status, "unpackedHash")
		c.Revision = toInt(status["revision"])
		c.TmplHash = shortHash([]any{spec["image"], spec["config"], spec["component"]})
	case "ObjectTemplate", "ClusterObjectTemplate":
		c.TmplHash = shortHash(spec)
		c.Class = "ok"
		if t, _ := spec["template"].(string); strings.Contains(t, `c: "two"`) {
			c.Class = "ok2"
		}
	}
	return c
}
