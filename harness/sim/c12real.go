package verifsim

import (
	"context"
	"encoding/json"
	"flag"
	"fmt"
	"net/http"
	"net/http/httptest"
	"sort"
	"strings"
	"sync"
	"time"

	"k8s.io/apimachinery/pkg/api/meta"
	"k8s.io/apimachinery/pkg/runtime/schema"
	"k8s.io/client-go/rest"
	"k8s.io/client-go/util/workqueue"
	"sigs.k8s.io/controller-runtime/pkg/client"
	"sigs.k8s.io/controller-runtime/pkg/event"
	"sigs.k8s.io/controller-runtime/pkg/reconcile"

	"package-operator.run/internal/dynamiccache"
)

// C12 with the REAL informer map: dynamiccache.NewCache against a minimal list/watch API server (ConfigMaps and
// Secrets). What a scripted informer map cannot show is covered here: an informer a Watch call starts keeps serving
// (one open watch stream per owned kind, events delivered to the handlers) after that call - and its context - is
// over, and the stream is closed when the last owner frees the kind.

type lwServer struct {
	mu     sync.Mutex
	objs   map[string][]map[string]any // resource -> objects
	rv     int
	active map[string]int                         // resource -> open watch streams
	subs   map[string]map[int]chan map[string]any // resource -> stream id -> events
	nextID int
	srv    *httptest.Server
}

func newLWServer() *lwServer {
	s := &lwServer{objs: map[string][]map[string]any{}, active: map[string]int{}, subs: map[string]map[int]chan map[string]any{}}
	s.srv = httptest.NewServer(http.HandlerFunc(s.handle))
	return s
}

// resource (as addressed on the server) -> kind. Widgets are served in two API versions: two resources, one GroupKind.
var lwKinds = map[string]string{"configmaps": "ConfigMap", "secrets": "Secret", "v1/widgets": "Widget", "v2/widgets": "Widget"}

func lwAPIVersion(res string) string {
	switch res {
	case "v1/widgets":
		return "example.verif/v1"
	case "v2/widgets":
		return "example.verif/v2"
	}
	return "v1"
}

func (s *lwServer) handle(w http.ResponseWriter, r *http.Request) {
	// /api/v1/<resource> or /apis/example.verif/<version>/<resource>
	var res string
	if strings.HasPrefix(r.URL.Path, "/apis/example.verif/") {
		res = strings.TrimPrefix(r.URL.Path, "/apis/example.verif/")
	} else if n, _ := fmt.Sscanf(r.URL.Path, "/api/v1/%s", &res); n != 1 {
		res = ""
	}
	if lwKinds[res] == "" {
		http.NotFound(w, r)
		return
	}
	w.Header().Set("Content-Type", "application/json")
	if r.URL.Query().Get("watch") == "" || r.URL.Query().Get("watch") == "false" {
		s.mu.Lock()
		items := append([]map[string]any{}, s.objs[res]...)
		rv := s.rv
		s.mu.Unlock()
		_ = json.NewEncoder(w).Encode(map[string]any{"kind": lwKinds[res] + "List", "apiVersion": lwAPIVersion(res),
			"metadata": map[string]any{"resourceVersion": fmt.Sprint(rv)}, "items": items})
		return
	}
	fl, _ := w.(http.Flusher)
	ch := make(chan map[string]any, 16)
	s.mu.Lock()
	s.nextID++
	id := s.nextID
	if s.subs[res] == nil {
		s.subs[res] = map[int]chan map[string]any{}
	}
	s.subs[res][id] = ch
	s.active[res]++
	s.mu.Unlock()
	defer func() {
		s.mu.Lock()
		delete(s.subs[res], id)
		s.active[res]--
		s.mu.Unlock()
	}()
	w.WriteHeader(http.StatusOK)
	if fl != nil {
		fl.Flush()
	}
	for {
		select {
		case <-r.Context().Done():
			return
		case ev := <-ch:
			if json.NewEncoder(w).Encode(ev) != nil {
				return
			}
			if fl != nil {
				fl.Flush()
			}
		}
	}
}

func (s *lwServer) add(res, name string) {
	s.mu.Lock()
	s.rv++
	o := map[string]any{"apiVersion": lwAPIVersion(res), "kind": lwKinds[res], "metadata": map[string]any{"name": name, "namespace": NS,
		"uid": fmt.Sprintf("uid-%s-%d", name, s.rv), "resourceVersion": fmt.Sprint(s.rv)}}
	s.objs[res] = append(s.objs[res], o)
	for _, ch := range s.subs[res] {
		select {
		case ch <- map[string]any{"type": "ADDED", "object": o}:
		default:
		}
	}
	s.mu.Unlock()
}

func (s *lwServer) activeWatches(res string) int {
	s.mu.Lock()
	defer s.mu.Unlock()
	return s.active[res]
}

type countingHandler struct {
	mu   sync.Mutex
	seen map[string]int // kind/name -> events
}

func (h *countingHandler) note(o client.Object) {
	h.mu.Lock()
	h.seen[o.GetObjectKind().GroupVersionKind().Kind+"/"+o.GetName()]++
	h.mu.Unlock()
}
func (h *countingHandler) Create(_ context.Context, e event.CreateEvent, _ workqueue.TypedRateLimitingInterface[reconcile.Request]) {
	h.note(e.Object)
}
func (h *countingHandler) Update(_ context.Context, e event.UpdateEvent, _ workqueue.TypedRateLimitingInterface[reconcile.Request]) {
	h.note(e.ObjectNew)
}
func (h *countingHandler) Delete(context.Context, event.DeleteEvent, workqueue.TypedRateLimitingInterface[reconcile.Request]) {
}
func (h *countingHandler) Generic(context.Context, event.GenericEvent, workqueue.TypedRateLimitingInterface[reconcile.Request]) {
}
func (h *countingHandler) count(key string) int {
	h.mu.Lock()
	defer h.mu.Unlock()
	return h.seen[key]
}

type c12RealOp struct {
	Op     string `json:"op"` // Watch | Free | Probe
	Owner  string `json:"owner"`
	Kind   string `json:"kind"`   // k1 (ConfigMap) | k2 (Secret)
	Cancel bool   `json:"cancel"` // Watch: the call's context is cancelled right after the call returned
}

// eventually polls cond for up to 10 s (only positive conditions are waited for; the reported value is what held at the end)
func eventually(cond func() bool) bool {
	for i := 0; i < 2000; i++ {
		if cond() {
			return true
		}
		time.Sleep(5 * time.Millisecond)
	}
	return cond()
}

func runC12Real(w *World, name string, script []c12RealOp) {
	w.Emit(Event{Actor: "sim", Ev: "Reset", Key: "-", Args: map[string]any{"scenario": name}})
	srv := newLWServer()
	defer srv.srv.Close()
	mapper := meta.NewDefaultRESTMapper(nil)
	mapper.Add(gvkConfigMap, meta.RESTScopeNamespace)
	mapper.Add(gvkSecret, meta.RESTScopeNamespace)
	mapper.Add(gvkWidget, meta.RESTScopeNamespace)
	mapper.Add(gvkWidget.GroupKind().WithVersion("v2"), meta.RESTScopeNamespace)
	c := dynamiccache.NewCache(&rest.Config{Host: srv.srv.URL}, w.Scheme, mapper, nil)
	// three handlers: two sources of one controller (controller-runtime starts all sources of a controller with the
	// same work queue) and one source of another controller
	handlers := []*countingHandler{{seen: map[string]int{}}, {seen: map[string]int{}}, {seen: map[string]int{}}}
	rootCtx, rootCancel := context.WithCancel(context.Background())
	defer rootCancel()
	qA := workqueue.NewTypedRateLimitingQueue(workqueue.DefaultTypedControllerRateLimiter[reconcile.Request]())
	qB := workqueue.NewTypedRateLimitingQueue(workqueue.DefaultTypedControllerRateLimiter[reconcile.Request]())
	defer qA.ShutDown()
	defer qB.ShutDown()
	for i, h := range handlers {
		q := qA
		if i == 2 {
			q = qB
		}
		must(c.Source(h).Start(rootCtx, q))
	}
	must(c.Start(rootCtx))
	kinds := map[string]schema.GroupVersionKind{"k1": gvkConfigMap, "k2": gvkSecret, "k3": gvkWidget, "k4": gvkWidget.GroupKind().WithVersion("v2")}
	resOf := map[string]string{"k1": "configmaps", "k2": "secrets", "k3": "v1/widgets", "k4": "v2/widgets"}
	owners := map[string]bool{}
	probes := 0
	state := func() map[string]any {
		refs, serving := map[string]any{}, []string{}
		for _, k := range []string{"k1", "k2", "k3", "k4"} {
			os := []string{}
			for _, o := range c.OwnersForGKV(kinds[k]) {
				os = append(os, o.Name)
			}
			sort.Strings(os)
			refs[k] = os
			want := 0
			if len(os) > 0 {
				want = 1
			}
			// give the streams time to open / close, then report what is there
			res := resOf[k]
			eventually(func() bool { return srv.activeWatches(res) == want })
			for i := 0; i < srv.activeWatches(res); i++ {
				serving = append(serving, k)
			}
		}
		return map[string]any{"refs": refs, "serving": serving}
	}
	for _, op := range script {
		res, delivered := "ok", -1
		switch op.Op {
		case "Watch":
			ctx, cancel := context.WithCancel(rootCtx)
			obj := (&c12World{kinds: kinds}).obj(op.Kind)
			if err := c.Watch(ctx, c12Owner(op.Owner), obj); err != nil {
				res = "Error"
			}
			owners[op.Owner] = true
			if op.Cancel {
				cancel()
				time.Sleep(20 * time.Millisecond)
			} else {
				defer cancel()
			}
		case "Free":
			if err := c.Free(rootCtx, c12Owner(op.Owner)); err != nil {
				res = "Error"
			}
		case "Probe":
			// an object of the kind appears on the server: do the handlers hear about it?
			probes++
			name := fmt.Sprintf("probe-%d", probes)
			owned := len(c.OwnersForGKV(kinds[op.Kind])) > 0
			srv.add(resOf[op.Kind], name)
			key := kinds[op.Kind].Kind + "/" + name
			if owned {
				eventually(func() bool {
					for _, h := range handlers {
						if h.count(key) == 0 {
							return false
						}
					}
					return true
				})
			} else {
				time.Sleep(30 * time.Millisecond)
			}
			delivered = 0
			for _, h := range handlers {
				if h.count(key) > 0 {
					delivered++
				}
			}
		}
		w.Emit(Event{Actor: "c12", Ev: "C12Real", Key: "-", Res: res, Args: map[string]any{"op": op.Op, "owner": op.Owner, "kind": op.Kind,
			"cancel": op.Cancel, "result": res, "delivered": delivered, "handlers": len(handlers), "state": state()}})
	}
	// release everything: all streams must close
	for o := range owners {
		_ = c.Free(rootCtx, c12Owner(o))
	}
	w.Emit(Event{Actor: "c12", Ev: "C12Real", Key: "-", Res: "ok", Args: map[string]any{"op": "End", "owner": "", "kind": "", "cancel": false,
		"result": "ok", "delivered": -1, "handlers": len(handlers), "state": state()}})
}

func init() {
	extraDrivers["c12-real"] = func(w *World, _ *flag.FlagSet, a driverArgs) int {
		alpha := []c12RealOp{
			{Op: "Watch", Owner: "o1", Kind: "k1"}, {Op: "Watch", Owner: "o1", Kind: "k1", Cancel: true},
			{Op: "Watch", Owner: "o2", Kind: "k1", Cancel: true}, {Op: "Watch", Owner: "o2", Kind: "k2", Cancel: true},
			{Op: "Free", Owner: "o1"}, {Op: "Free", Owner: "o2"}, {Op: "Probe", Kind: "k1"}, {Op: "Probe", Kind: "k2"},
			// one kind served in two API versions
			{Op: "Watch", Owner: "o1", Kind: "k3"}, {Op: "Watch", Owner: "o2", Kind: "k4", Cancel: true}, {Op: "Watch", Owner: "o1", Kind: "k4"},
		}
		var scripts [][]c12RealOp
		var rec func(p []c12RealOp)
		rec = func(p []c12RealOp) {
			if len(p) == a.steps {
				scripts = append(scripts, append([]c12RealOp{}, p...))
				return
			}
			for _, o := range alpha {
				rec(append(p, o))
			}
		}
		rec(nil)
		n := 0
		for i, s := range scripts {
			if i%a.shards != a.shard {
				continue
			}
			if a.n > 0 && n >= a.n {
				break
			}
			// every script ends with probes of both kinds
			s = append(s, c12RealOp{Op: "Probe", Kind: "k1"}, c12RealOp{Op: "Probe", Kind: "k2"}, c12RealOp{Op: "Probe", Kind: "k3"}, c12RealOp{Op: "Probe", Kind: "k4"})
			runC12Real(w, fmt.Sprintf("c12-real-%d", i), s)
			n++
		}
		return 0
	}
}
