package verifsim

// buildExtraControllers wires the Package and ObjectTemplate controllers (see package.go / template.go).
func (w *World) buildExtraControllers() {
	w.buildPackageController()
	w.buildTemplateController()
}
