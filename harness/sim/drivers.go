package verifsim

import (
	"fmt"
	"math/rand"
	"sort"

	metav1 "k8s.io/apimachinery/pkg/apis/meta/v1"
	"k8s.io/apimachinery/pkg/apis/meta/v1/unstructured"
	"k8s.io/apimachinery/pkg/runtime/schema"

	corev1alpha1 "package-operator.run/apis/core/v1alpha1"
)

// Scenario is a named initial cluster state.
type Scenario struct {
	Name       string
	Annotation bool // ObjectSetPhase controller in annotation-owner flavour
	Setup      func(w *World)
}

// actorFor maps a CR kind to the controller that reconciles it.
func actorFor(kind string) string {
	switch kind {
	case "ObjectSet":
		return "os"
	case "ClusterObjectSet":
		return "cos"
	case "ObjectSetPhase":
		return "ph"
	case "ClusterObjectSetPhase":
		return "cph"
	case "ObjectDeployment":
		return "od"
	case "ClusterObjectDeployment":
		return "cod"
	case "Package":
		return "pk"
	case "ClusterPackage":
		return "cpk"
	case "ObjectTemplate":
		return "tm"
	case "ClusterObjectTemplate":
		return "ctm"
	}
	return ""
}

// Reconcilables lists (actor,target) for every CR in the store that has a controller.
func (w *World) Reconcilables() [][2]any {
	var out [][2]any
	for _, k := range w.Store.Keys() {
		if k.Group != pkoGroup {
			continue
		}
		a := actorFor(k.Kind)
		if a == "" || w.Ctrls[a] == nil {
			continue
		}
		out = append(out, [2]any{a, k})
	}
	return out
}

// lists reports whether the ObjectSet / phase object m names an object with key k.
func (w *World) lists(owner Key, k Key) bool {
	m := w.Store.Snapshot(owner)
	if m == nil {
		return false
	}
	spec := nestedMap(m, "spec")
	has := func(objs []any) bool {
		for _, o := range objs {
			om, _ := o.(map[string]any)
			obj, _ := om["object"].(map[string]any)
			if obj == nil {
				continue
			}
			if ok := KeyOf(&unstructured.Unstructured{Object: obj}, owner.NS); ok.Kind == k.Kind && ok.Name == k.Name {
				return true
			}
		}
		return false
	}
	switch owner.Kind {
	case "ObjectSet", "ClusterObjectSet":
		phs, _ := spec["phases"].([]any)
		for _, ph := range phs {
			pm, _ := ph.(map[string]any)
			if objs, _ := pm["objects"].([]any); getStr(pm, "class") == "" && has(objs) {
				return true
			}
		}
	case "ObjectSetPhase", "ClusterObjectSetPhase":
		objs, _ := spec["objects"].([]any)
		return has(objs)
	}
	return false
}

// ListedKeys returns every object key named in any ObjectSet / phase / deployment template in the store,
// with the unstructured desired object.
func (w *World) ListedObjects() map[Key]*unstructured.Unstructured {
	out := map[Key]*unstructured.Unstructured{}
	add := func(objs []any, ns string) {
		for _, o := range objs {
			om, _ := o.(map[string]any)
			obj, _ := om["object"].(map[string]any)
			if obj == nil {
				continue
			}
			u := &unstructured.Unstructured{Object: deepCopyMap(obj)}
			k := KeyOf(u, ns)
			if ki, ok := w.Store.kinds[schema.GroupKind{Group: k.Group, Kind: k.Kind}]; ok && !ki.Namespaced {
				k.NS = ""
			}
			out[k] = u
		}
	}
	for _, k := range w.Store.Keys() {
		if k.Group != pkoGroup {
			continue
		}
		m := w.Store.Snapshot(k)
		spec := nestedMap(m, "spec")
		switch k.Kind {
		case "ObjectSet", "ClusterObjectSet":
			phs, _ := spec["phases"].([]any)
			for _, ph := range phs {
				pm, _ := ph.(map[string]any)
				objs, _ := pm["objects"].([]any)
				add(objs, k.NS)
			}
		case "ObjectSetPhase", "ClusterObjectSetPhase":
			objs, _ := spec["objects"].([]any)
			add(objs, k.NS)
		case "ObjectSlice", "ClusterObjectSlice":
			objs, _ := m["objects"].([]any)
			add(objs, k.NS)
		}
	}
	return out
}

func sortedKeys[V any](m map[Key]V) []Key {
	ks := make([]Key, 0, len(m))
	for k := range m {
		ks = append(ks, k)
	}
	sort.Slice(ks, func(i, j int) bool { return ks[i].String() < ks[j].String() })
	return ks
}

// RandomOpts tunes the random walk.
type RandomOpts struct {
	Steps         int
	PassAtomic    bool    // run every pass to completion (reconcile-granularity interleaving)
	EnvProb       float64 // probability of an environment action per step
	Faults        int     // fault budget
	Crashes       int     // crash budget
	EnvBudget     int     // budget of disturbing env actions (ownership / deletion / edits / lifecycle)
	AllowReown    bool
	AllowCRDelete bool
	AllowArchive  bool
	AllowPause    bool
	AllowOrphan   bool
	Legacy        bool // objects may carry a legacy (operation Update) managedFields entry of the operator's field manager
	Conflicts     int  // budget of 409 Conflict answers to patch / update requests (also dry-run ones)
	Lag           bool // created PKO objects stay invisible to cached reads until an EnvSyncCache action
	TemplateEdits int  // budget of ObjectDeployment template edits / pause toggles
	Race          bool // API mode: third party acts on an object right before the pass's pending write on it
	Settle        bool // after the walk: fair round-robin until quiescent, then a Quiesced event
}

// inflight keeps at most one pass per controller.
type walker struct {
	w         *World
	rng       *rand.Rand
	flight    map[string]*Pass
	opts      RandomOpts
	faults    int
	conflicts int
	crashes   int
	envLeft   int
	tmplLeft  int
}

func (wk *walker) startRandomPass() bool {
	rs := wk.w.Reconcilables()
	var cands [][2]any
	for _, r := range rs {
		if wk.flight[r[0].(string)] == nil {
			cands = append(cands, r)
		}
	}
	if len(cands) == 0 {
		return false
	}
	c := cands[wk.rng.Intn(len(cands))]
	p := wk.w.StartPass(c[0].(string), c[1].(Key))
	if p.Pending != nil {
		wk.flight[p.Actor] = p
	}
	return true
}

func (wk *walker) stepRandomPass() bool {
	if len(wk.flight) == 0 {
		return false
	}
	var as []string
	for a := range wk.flight {
		as = append(as, a)
	}
	sort.Strings(as)
	a := as[wk.rng.Intn(len(as))]
	p := wk.flight[a]
	// targeted race: a third party acts on the very object between the pass's read and its write/delete
	if wk.opts.Race && !wk.opts.PassAtomic && p.Pending != nil && wk.envLeft > 0 &&
		(p.Pending.verb == "Delete" || p.Pending.verb == "MergePatch" || p.Pending.verb == "ApplyPatch") &&
		p.Pending.key.Group != pkoGroup && !p.Pending.dry && wk.rng.Intn(2) == 0 {
		wk.envLeft--
		k := p.Pending.key
		switch wk.rng.Intn(5) {
		case 0:
			wk.w.EnvReown(k, true)
		case 1:
			wk.w.EnvReown(k, false)
		case 2:
			wk.w.EnvEditContent(k, "race")
		case 3:
			// delete and re-create: new incarnation (uid) under the same name
			if m := wk.w.Store.Snapshot(k); m != nil {
				u := &unstructured.Unstructured{Object: deepCopyMap(m)}
				wk.w.EnvMutate("EnvRemoveFinalizer", k, map[string]any{"f": "*"}, func(m map[string]any) { delete(metaOf(m), "finalizers") })
				if wk.w.EnvDelete(k, false) {
					md := metaOf(u.Object)
					for _, f := range []string{"uid", "resourceVersion", "generation", "creationTimestamp", "deletionTimestamp", "finalizers"} {
						delete(md, f)
					}
					wk.w.EnvCreate(u)
				}
			}
		case 4:
			wk.w.EnvSetRevAnnotation(k, "9")
		}
	}
	// the same window, used by Package Operator itself: the other controller (ObjectSet vs ObjectSetPhase controller
	// run concurrently) reconciles a set that lists the very object between this pass's read and its delete
	if wk.opts.Race && !wk.opts.PassAtomic && p.Pending != nil && p.Pending.verb == "Delete" && !p.Pending.dry &&
		p.Pending.key.Group != pkoGroup && wk.rng.Intn(2) == 0 {
		var cands [][2]any
		for _, r := range wk.w.Reconcilables() {
			if r[0].(string) != a && wk.flight[r[0].(string)] == nil && (r[0].(string) == "os" || r[0].(string) == "ph") &&
				wk.w.lists(r[1].(Key), p.Pending.key) {
				cands = append(cands, r)
			}
		}
		if len(cands) > 0 {
			c := cands[wk.rng.Intn(len(cands))]
			q := wk.w.StartPass(c[0].(string), c[1].(Key))
			for q.Pending != nil && !wk.w.Step(q, "") {
			}
		}
	}
	fault := ""
	if wk.faults > 0 && wk.rng.Intn(12) == 0 {
		wk.faults--
		fault = []string{"before", "after"}[wk.rng.Intn(2)]
	}
	// a patch or update (also a dry-run one) can be answered with 409 Conflict: the object was written to while
	// the API server was merging the request
	conflictFor := func() string {
		if wk.conflicts > 0 && p.Pending != nil && wk.rng.Intn(8) == 0 {
			switch p.Pending.verb {
			case "ApplyPatch", "MergePatch", "Update", "StatusUpdate":
				wk.conflicts--
				return "conflict"
			}
		}
		return ""
	}
	n := 1
	if wk.opts.PassAtomic {
		n = 1 << 20
	}
	for i := 0; i < n; i++ {
		if fault == "" {
			fault = conflictFor()
		}
		if wk.w.Step(p, fault) {
			delete(wk.flight, a)
			break
		}
		fault = ""
	}
	return true
}

func (wk *walker) crash() {
	for a, p := range wk.flight {
		wk.w.Abandon(p)
		delete(wk.flight, a)
	}
	wk.w.Restart()
}

func (wk *walker) envAction() {
	w := wk.w
	rng := wk.rng
	listed := w.ListedObjects()
	lk := sortedKeys(listed)
	var widgets, existing, missing []Key
	for _, k := range lk {
		if w.Store.Snapshot(k) != nil {
			existing = append(existing, k)
			if k.Kind == "Widget" {
				widgets = append(widgets, k)
			}
		} else {
			missing = append(missing, k)
		}
	}
	var sets, phases, deps []Key
	for _, k := range w.Store.Keys() {
		if k.Group == pkoGroup && k.Kind == "ObjectDeployment" {
			deps = append(deps, k)
		}
		if k.Group == pkoGroup && (k.Kind == "ObjectSet" || k.Kind == "ClusterObjectSet") {
			sets = append(sets, k)
		}
		if k.Group == pkoGroup && (k.Kind == "ObjectSetPhase") {
			phases = append(phases, k)
		}
	}
	pick := func(ks []Key) (Key, bool) {
		if len(ks) == 0 {
			return Key{}, false
		}
		return ks[rng.Intn(len(ks))], true
	}
	if wk.opts.Lag && rng.Intn(3) == 0 {
		w.EnvSyncCache()
		return
	}
	if len(deps) > 0 && wk.tmplLeft > 0 && rng.Intn(5) == 0 {
		wk.tmplLeft--
		d := deps[rng.Intn(len(deps))]
		if wk.opts.AllowPause && rng.Intn(4) == 0 {
			m := w.Store.Snapshot(d)
			paused, _ := nestedMap(m, "spec")["paused"].(bool)
			w.EnvSetPaused(d, !paused)
		} else {
			w.EnvSetTemplate(d, w.TemplateBase+rng.Intn(4))
		}
		return
	}
	// workload status changes are free; everything else is budgeted
	r := rng.Intn(100)
	switch {
	case r < 45:
		if k, ok := pick(widgets); ok {
			w.EnvSetWidgetStatus(k, []string{"Ready", "Ready", "Ready", "NotReady", "Stale", "None"}[rng.Intn(6)])
		}
		return
	case r < 50:
		w.EnvGC()
		return
	}
	if wk.envLeft <= 0 {
		return
	}
	wk.envLeft--
	// ObjectSlices that belong to no deployment (the user's own): deleted, or - the other order of the same two
	// creations - not there yet when the ObjectSet referencing them is first reconciled; restored later
	var userSlices []Key
	for _, k := range w.Store.Keys() {
		if k.Group == pkoGroup && k.Kind == "ObjectSlice" {
			if m := w.Store.Snapshot(k); m != nil && metaOf(m)["ownerReferences"] == nil {
				userSlices = append(userSlices, k)
			}
		}
	}
	if len(userSlices)+len(w.GoneSlices) > 0 && rng.Intn(5) == 0 {
		if gone := sortedKeys(w.GoneSlices); len(gone) > 0 && (len(userSlices) == 0 || rng.Intn(2) == 0) {
			k := gone[rng.Intn(len(gone))]
			w.EnvCreate(w.GoneSlices[k])
			delete(w.GoneSlices, k)
		} else {
			k := userSlices[rng.Intn(len(userSlices))]
			u := &unstructured.Unstructured{Object: deepCopyMap(w.Store.Snapshot(k))}
			md := metaOf(u.Object)
			for _, f := range []string{"uid", "resourceVersion", "generation", "creationTimestamp", "deletionTimestamp", "finalizers"} {
				delete(md, f)
			}
			if w.EnvDelete(k, false) {
				if w.GoneSlices == nil {
					w.GoneSlices = map[Key]*unstructured.Unstructured{}
				}
				w.GoneSlices[k] = u
			}
		}
		return
	}
	if wk.opts.Legacy && rng.Intn(6) == 0 {
		if k, ok := pick(existing); ok {
			w.EnvLegacyManager(k)
		}
		return
	}
	r = rng.Intn(100)
	switch {
	case r < 15:
		if k, ok := pick(existing); ok {
			w.EnvDelete(k, false)
		}
	case r < 30:
		if k, ok := pick(existing); ok {
			w.EnvEditContent(k, fmt.Sprint(rng.Intn(3)))
		}
	case r < 38:
		if k, ok := pick(existing); ok {
			w.EnvDropCacheLabel(k)
		}
	case r < 50 && wk.opts.AllowReown:
		if k, ok := pick(existing); ok {
			w.EnvReown(k, rng.Intn(2) == 0)
		}
	case r < 58 && wk.opts.AllowReown:
		if k, ok := pick(missing); ok {
			u := listed[k].DeepCopy()
			u.SetNamespace(k.NS)
			if rng.Intn(2) == 0 {
				u.SetOwnerReferences(nil)
			}
			w.EnvCreate(u)
			if rng.Intn(2) == 0 {
				w.EnvReown(k, true)
			}
		}
	case r < 70 && wk.opts.AllowPause:
		if k, ok := pick(sets); ok {
			m := w.Store.Snapshot(k)
			st := getStr(nestedMap(m, "spec"), "lifecycleState")
			if st == "Paused" {
				w.EnvSetLifecycle(k, "Active")
			} else if st != "Archived" {
				w.EnvSetLifecycle(k, "Paused")
			} else {
				// the API does not restrict lifecycle transitions: a user may flip an archived set back
				w.EnvSetLifecycle(k, []string{"Active", "Paused"}[rng.Intn(2)])
			}
		}
	case r < 78 && wk.opts.AllowArchive:
		if k, ok := pick(sets); ok {
			m := w.Store.Snapshot(k)
			if getStr(nestedMap(m, "spec"), "lifecycleState") == "Archived" {
				w.EnvSetLifecycle(k, []string{"Active", "Paused"}[rng.Intn(2)])
			} else {
				w.EnvSetLifecycle(k, "Archived")
			}
		}
	case r < 88 && wk.opts.AllowCRDelete:
		if k, ok := pick(sets); ok {
			w.EnvDelete(k, wk.opts.AllowOrphan && rng.Intn(4) == 0)
		}
	case r < 92:
		if k, ok := pick(existing); ok {
			w.EnvAddFinalizer(k, "example.verif/hold")
		}
	case r < 97:
		if k, ok := pick(existing); ok {
			w.EnvRemoveFinalizer(k, "example.verif/hold")
		}
	default:
		if k, ok := pick(phases); ok && wk.opts.AllowCRDelete {
			w.EnvDelete(k, false)
		}
	}
}

// deployRounds runs n fair rounds of all controllers over deployment d1 and what it owns; ready: the workload controller
// reports every Widget Ready after each round.
func deployRounds(w *World, n int, ready bool) {
	for i := 0; i < n; i++ {
		w.RunPass("od", KOD("d1"))
		for _, k := range w.CRKeys("ObjectSet") {
			w.RunPass("os", k)
		}
		for _, k := range w.CRKeys("ObjectSetPhase") {
			w.RunPass("ph", k)
		}
		if ready {
			for k := range w.ListedObjects() {
				if k.Kind == "Widget" && w.Store.Snapshot(k) != nil {
					w.EnvSetWidgetStatus(k, "Ready")
				}
			}
		}
	}
}

// RandomWalk runs one seeded random schedule over scenario sc.
func RandomWalk(w *World, sc Scenario, seed int64, o RandomOpts) {
	w.AnnotationPhases = sc.Annotation
	w.Reset(fmt.Sprintf("%s/seed=%d", sc.Name, seed))
	sc.Setup(w)
	wk := &walker{w: w, rng: rand.New(rand.NewSource(seed)), flight: map[string]*Pass{}, opts: o,
		faults: o.Faults, conflicts: o.Conflicts, crashes: o.Crashes, envLeft: o.EnvBudget, tmplLeft: o.TemplateEdits}
	w.Store.LagCreates = o.Lag
	for i := 0; i < o.Steps; i++ {
		r := wk.rng.Float64()
		switch {
		case r < o.EnvProb:
			wk.envAction()
		case wk.crashes > 0 && wk.rng.Intn(60) == 0:
			wk.crashes--
			wk.crash()
		case len(wk.flight) > 0 && wk.rng.Intn(3) != 0:
			wk.stepRandomPass()
		default:
			if !wk.startRandomPass() {
				wk.stepRandomPass()
			}
		}
	}
	// drain in-flight passes
	for len(wk.flight) > 0 {
		wk.stepRandomPass()
	}
	w.Store.FlushGhosts = true
	w.EnvSyncCache()
	w.Store.LagCreates = false
	if o.Settle {
		w.Settle(40)
	}
}

// Settle runs fair round-robin passes (plus GC and foreign-finalizer release) until a full
// round changes nothing, at most maxRounds. It emits a Quiesced event with the end state.
func (w *World) Settle(maxRounds int) bool {
	quiet := 0
	rounds := 0
	for rounds = 0; rounds < maxRounds && quiet < 2; rounds++ {
		writes := 0
		w.EnvSyncCache()
		before := w.Store.rvSeq
		for _, r := range w.Reconcilables() {
			p := w.RunPass(r[0].(string), r[1].(Key))
			writes += p.Writes
			if p.Err != nil {
				writes++ // a failed pass is retried: the round is not quiet
			}
		}
		if len(w.EnvGC()) > 0 {
			writes++
		}
		if w.Store.rvSeq != before {
			writes++
		}
		if writes == 0 {
			quiet++
		} else {
			quiet = 0
		}
	}
	w.Emit(Event{Actor: "sim", Ev: "Quiesced", Key: "-", Res: map[bool]string{true: "ok", false: "diverged"}[quiet >= 2],
		Args: map[string]any{"rounds": rounds, "state": w.StateDigest(), "dynRefs": w.Dyn.Refs()}})
	return quiet >= 2
}

// ---------------- scenario library ----------------

func cmObjs(names ...string) []*unstructured.Unstructured {
	var out []*unstructured.Unstructured
	for _, n := range names {
		out = append(out, ConfigMap(n, "v1"))
	}
	return out
}

func Scenarios() []Scenario {
	return []Scenario{
		{Name: "single-2phase", Setup: func(w *World) {
			w.EnvCreate(NewObjectSet("a1", []PhaseSpec{
				{Name: "p1", Objects: []*unstructured.Unstructured{ConfigMap("cm1", "x"), Widget("w1", 1)}},
				{Name: "p2", Objects: []*unstructured.Unstructured{Widget("w2", 1), ConfigMap("cm2", "x")}},
			}))
		}},
		{Name: "single-2phase-cel", Setup: func(w *World) {
			// the same, probed by a CEL rule whose failure message is empty
			os := NewObjectSet("a1", []PhaseSpec{
				{Name: "p1", Objects: []*unstructured.Unstructured{ConfigMap("cm1", "x"), Widget("w1", 1)}},
				{Name: "p2", Objects: []*unstructured.Unstructured{Widget("w2", 1), ConfigMap("cm2", "x")}},
			})
			os.Spec.AvailabilityProbes = CELProbes()
			w.EnvCreate(os)
		}},
		{Name: "single-3phase", Setup: func(w *World) {
			w.EnvCreate(NewObjectSet("a1", []PhaseSpec{
				{Name: "p1", Objects: []*unstructured.Unstructured{Widget("w1", 1)}},
				{Name: "p2", Objects: []*unstructured.Unstructured{Widget("w2", 1)}},
				{Name: "p3", Objects: []*unstructured.Unstructured{ConfigMap("cm3", "x")}},
			}))
		}},
		{Name: "handover-2rev", Setup: func(w *World) {
			w.EnvCreate(NewObjectSet("a1", []PhaseSpec{
				{Name: "p1", Objects: []*unstructured.Unstructured{ConfigMap("shared", "x"), Widget("w1", 1)}},
				{Name: "p2", Objects: []*unstructured.Unstructured{ConfigMap("dropped", "x")}},
			}))
			w.RunPass("os", KOS("a1"))
			w.EnvCreate(NewObjectSet("a2", []PhaseSpec{
				{Name: "p1", Objects: []*unstructured.Unstructured{ConfigMap("shared", "y"), Widget("w1", 2)}},
				{Name: "p2", Objects: []*unstructured.Unstructured{ConfigMap("added", "x")}},
			}, "a1"))
		}},
		{Name: "handover-3rev", Setup: func(w *World) {
			w.EnvCreate(NewObjectSet("a1", []PhaseSpec{
				{Name: "p1", Objects: []*unstructured.Unstructured{ConfigMap("shared", "x"), ConfigMap("only1", "x")}},
			}))
			w.RunPass("os", KOS("a1"))
			w.EnvCreate(NewObjectSet("a2", []PhaseSpec{
				{Name: "p1", Objects: []*unstructured.Unstructured{ConfigMap("shared", "y"), Widget("w2", 1)}},
			}, "a1"))
			w.EnvCreate(NewObjectSet("a3", []PhaseSpec{
				{Name: "p1", Objects: []*unstructured.Unstructured{ConfigMap("shared", "z"), Widget("w2", 2), ConfigMap("only3", "x")}},
			}, "a1", "a2"))
		}},
		{Name: "handover-3rev-annot", Setup: func(w *World) {
			// the newest revision's template carries a left-over revision annotation (a manifest exported from a cluster)
			w.EnvCreate(NewObjectSet("a1", []PhaseSpec{
				{Name: "p1", Objects: []*unstructured.Unstructured{ConfigMap("shared", "x"), ConfigMap("only1", "x")}},
			}))
			w.RunPass("os", KOS("a1"))
			w.EnvCreate(NewObjectSet("a2", []PhaseSpec{
				{Name: "p1", Objects: []*unstructured.Unstructured{ConfigMap("shared", "y"), Widget("w2", 1)}},
			}, "a1"))
			stale := ConfigMap("shared", "z")
			stale.SetAnnotations(map[string]string{"package-operator.run/revision": "1"})
			w.EnvCreate(NewObjectSet("a3", []PhaseSpec{
				{Name: "p1", Objects: []*unstructured.Unstructured{stale, Widget("w2", 2), ConfigMap("only3", "x")}},
			}, "a1", "a2"))
		}},
		{Name: "delegated-mixed", Setup: func(w *World) {
			w.EnvCreate(NewObjectSet("a1", []PhaseSpec{
				{Name: "p1", Class: "default", Objects: []*unstructured.Unstructured{ConfigMap("cm1", "x"), Widget("w1", 1)}},
				{Name: "p2", Objects: []*unstructured.Unstructured{Widget("w2", 1)}},
				{Name: "p3", Class: "default", Objects: []*unstructured.Unstructured{ConfigMap("cm3", "x")}},
			}))
		}},
		{Name: "delegated-handover", Setup: func(w *World) {
			w.EnvCreate(NewObjectSet("a1", []PhaseSpec{
				{Name: "p1", Class: "default", Objects: []*unstructured.Unstructured{ConfigMap("shared", "x"), Widget("w1", 1)}},
			}))
			w.RunPass("os", KOS("a1"))
			w.RunPass("ph", KPH("a1-p1"))
			w.RunPass("os", KOS("a1"))
			w.EnvCreate(NewObjectSet("a2", []PhaseSpec{
				{Name: "p1", Objects: []*unstructured.Unstructured{ConfigMap("shared", "y"), Widget("w1", 2)}},
			}, "a1"))
		}},
		{Name: "delegated-handover-recreated", Setup: func(w *World) {
			// the phase object of revision 1 was deleted by a third party and re-created (new uid) before revision 2 arrives
			w.EnvCreate(NewObjectSet("a1", []PhaseSpec{
				{Name: "p1", Class: "default", Objects: []*unstructured.Unstructured{ConfigMap("shared", "x"), Widget("w1", 1)}},
			}))
			w.RunPass("os", KOS("a1"))
			w.RunPass("ph", KPH("a1-p1"))
			w.RunPass("os", KOS("a1"))
			w.EnvDelete(KPH("a1-p1"), false)
			for i := 0; i < 4; i++ {
				if w.Store.Snapshot(KPH("a1-p1")) != nil {
					w.RunPass("ph", KPH("a1-p1"))
				}
				w.EnvGC()
				w.RunPass("os", KOS("a1"))
			}
			w.EnvCreate(NewObjectSet("a2", []PhaseSpec{
				{Name: "p1", Objects: []*unstructured.Unstructured{ConfigMap("shared", "y"), Widget("w1", 2)}},
			}, "a1"))
		}},
		{Name: "cluster-delegated-handover", Setup: func(w *World) {
			// cluster-scoped revisions with namespaced objects; revision 1 delegated its phase (ClusterObjectSetPhase)
			nsd := func(u *unstructured.Unstructured) *unstructured.Unstructured { u.SetNamespace(NS); return u }
			mk := func(name string, phases []PhaseSpec, prev ...string) *corev1alpha1.ClusterObjectSet {
				cos := &corev1alpha1.ClusterObjectSet{ObjectMeta: metav1.ObjectMeta{Name: name}}
				cos.Spec.ObjectSetTemplateSpec = TemplateSpec(phases)
				for _, p := range prev {
					cos.Spec.Previous = append(cos.Spec.Previous, corev1alpha1.PreviousRevisionReference{Name: p})
				}
				return cos
			}
			k1 := w.EnvCreate(mk("a1", []PhaseSpec{
				{Name: "p1", Class: "default", Objects: []*unstructured.Unstructured{nsd(ConfigMap("shared", "x")), nsd(Widget("w1", 1))}},
			}))
			kph := Key{pkoGroup, "ClusterObjectSetPhase", "", "a1-p1"}
			w.RunPass("cos", k1)
			w.RunPass("cph", kph)
			w.RunPass("cos", k1)
			w.EnvCreate(mk("a2", []PhaseSpec{
				{Name: "p1", Objects: []*unstructured.Unstructured{nsd(ConfigMap("shared", "y")), nsd(Widget("w1", 2))}},
			}, "a1"))
		}},
		{Name: "local-to-delegated", Setup: func(w *World) {
			w.EnvCreate(NewObjectSet("a1", []PhaseSpec{
				{Name: "p1", Objects: []*unstructured.Unstructured{ConfigMap("shared", "x"), Widget("w1", 1)}},
			}))
			w.RunPass("os", KOS("a1"))
			w.EnvCreate(NewObjectSet("a2", []PhaseSpec{
				{Name: "p1", Class: "default", Objects: []*unstructured.Unstructured{ConfigMap("shared", "y"), Widget("w1", 2)}},
			}, "a1"))
		}},
		{Name: "collision", Setup: func(w *World) {
			// a foreign-controlled and an unowned object pre-exist
			cm := ConfigMap("cm1", "foreign")
			cm.SetNamespace(NS)
			w.EnvCreate(cm)
			w.EnvReown(KCM("cm1"), true)
			cm2 := ConfigMap("cm2", "unowned")
			cm2.SetNamespace(NS)
			w.EnvCreate(cm2)
			os := NewObjectSet("a1", []PhaseSpec{
				{Name: "p1", Objects: []*unstructured.Unstructured{ConfigMap("cm2", "x")}, CP: corev1alpha1.CollisionProtectionIfNoController},
				{Name: "p2", Objects: []*unstructured.Unstructured{ConfigMap("cm1", "x"), Widget("w1", 1)}},
			})
			w.EnvCreate(os)
		}},
	}
}

func moreScenarios() []Scenario {
	rollout := func(w *World, names ...string) {
		for i := 0; i < 3; i++ {
			for _, n := range names {
				w.RunPass("os", KOS(n))
			}
			for _, k := range w.CRKeys("ObjectSetPhase") {
				w.RunPass("ph", k)
			}
			for k := range w.ListedObjects() {
				if k.Kind == "Widget" {
					w.EnvSetWidgetStatus(k, "Ready")
				}
			}
		}
	}
	return []Scenario{
		{Name: "handover-cpnone", Setup: func(w *World) {
			cp := corev1alpha1.CollisionProtectionNone
			w.EnvCreate(NewObjectSet("a1", []PhaseSpec{
				{Name: "p1", CP: cp, Objects: []*unstructured.Unstructured{ConfigMap("shared", "x"), Widget("w1", 1)}},
				{Name: "p2", CP: cp, Objects: []*unstructured.Unstructured{ConfigMap("dropped", "x")}},
			}))
			w.RunPass("os", KOS("a1"))
			w.EnvCreate(NewObjectSet("a2", []PhaseSpec{
				{Name: "p1", CP: cp, Objects: []*unstructured.Unstructured{ConfigMap("shared", "y"), Widget("w1", 2)}},
				{Name: "p2", CP: cp, Objects: []*unstructured.Unstructured{ConfigMap("added", "x")}},
			}, "a1"))
		}},
		{Name: "handover-ifnoctrl", Setup: func(w *World) {
			cp := corev1alpha1.CollisionProtectionIfNoController
			w.EnvCreate(NewObjectSet("a1", []PhaseSpec{
				{Name: "p1", CP: cp, Objects: []*unstructured.Unstructured{ConfigMap("shared", "x"), Widget("w1", 1)}},
			}))
			w.RunPass("os", KOS("a1"))
			w.EnvCreate(NewObjectSet("a2", []PhaseSpec{
				{Name: "p1", CP: cp, Objects: []*unstructured.Unstructured{ConfigMap("shared", "y"), Widget("w1", 2)}},
			}, "a1"))
			w.EnvCreate(NewObjectSet("a3", []PhaseSpec{
				{Name: "p1", CP: cp, Objects: []*unstructured.Unstructured{ConfigMap("shared", "z"), Widget("w1", 3)}},
			}, "a1", "a2"))
		}},
		{Name: "sliced", Setup: func(w *World) {
			sl := &corev1alpha1.ObjectSlice{ObjectMeta: metav1.ObjectMeta{Name: "sl1", Namespace: NS}}
			sl.Objects = toPhases([]PhaseSpec{{Objects: []*unstructured.Unstructured{ConfigMap("cm1", "x"), Widget("w1", 1)}}})[0].Objects
			w.EnvCreate(sl)
			sl2 := &corev1alpha1.ObjectSlice{ObjectMeta: metav1.ObjectMeta{Name: "sl2", Namespace: NS}}
			sl2.Objects = toPhases([]PhaseSpec{{Objects: []*unstructured.Unstructured{ConfigMap("cm2", "x")}}})[0].Objects
			w.EnvCreate(sl2)
			w.EnvCreate(NewObjectSet("a1", []PhaseSpec{
				{Name: "p1", Slices: []string{"sl1"}},
				{Name: "p2", Objects: []*unstructured.Unstructured{Widget("w2", 1)}, Slices: []string{"sl2"}},
			}))
		}},
		{Name: "single-mapped", Setup: func(w *World) {
			// condition mappings: the Widgets' Available condition shows up in the owner's status
			w.EnvCreate(NewObjectSet("a1", []PhaseSpec{
				{Name: "p1", Mapped: true, Objects: []*unstructured.Unstructured{ConfigMap("cm1", "x"), Widget("w1", 1), Widget("w4", 1)}},
				{Name: "p2", Mapped: true, Objects: []*unstructured.Unstructured{Widget("w2", 1), ConfigMap("cm2", "x")}},
			}))
		}},
		{Name: "delegated-mapped", Setup: func(w *World) {
			w.EnvCreate(NewObjectSet("a1", []PhaseSpec{
				{Name: "p1", Mapped: true, Class: "default", Objects: []*unstructured.Unstructured{ConfigMap("cm1", "x"), Widget("w1", 1), Widget("w4", 1)}},
				{Name: "p2", Mapped: true, Objects: []*unstructured.Unstructured{Widget("w2", 1), ConfigMap("cm2", "x")}},
			}))
		}},
		{Name: "sliced-late", Setup: func(w *World) {
			// the ObjectSet is there before the slice of its FIRST phase (the other order of the same two creations; or the
			// slice was deleted): the environment creates it later
			sc, _ := ScenarioByName("sliced")
			sc.Setup(w)
			k := Key{pkoGroup, "ObjectSlice", NS, "sl1"}
			u := &unstructured.Unstructured{Object: deepCopyMap(w.Store.Snapshot(k))}
			md := metaOf(u.Object)
			for _, f := range []string{"uid", "resourceVersion", "generation", "creationTimestamp", "deletionTimestamp", "finalizers"} {
				delete(md, f)
			}
			if w.EnvDelete(k, false) {
				w.GoneSlices = map[Key]*unstructured.Unstructured{k: u}
			}
		}},
		{Name: "rolledout-2phase", Setup: func(w *World) {
			w.EnvCreate(NewObjectSet("a1", []PhaseSpec{
				{Name: "p1", Objects: []*unstructured.Unstructured{ConfigMap("cm1", "x"), Widget("w1", 1)}},
				{Name: "p2", Objects: []*unstructured.Unstructured{Widget("w2", 1), ConfigMap("cm2", "x")}},
			}))
			rollout(w, "a1")
		}},
		{Name: "rolledout-delegated", Setup: func(w *World) {
			w.EnvCreate(NewObjectSet("a1", []PhaseSpec{
				{Name: "p1", Objects: []*unstructured.Unstructured{ConfigMap("cm1", "x")}},
				{Name: "p2", Class: "default", Objects: []*unstructured.Unstructured{Widget("w2", 1), ConfigMap("cm2", "x")}},
				{Name: "p3", Objects: []*unstructured.Unstructured{ConfigMap("cm3", "x")}},
			}))
			rollout(w, "a1")
		}},
		{Name: "rolledout-handover", Setup: func(w *World) {
			w.EnvCreate(NewObjectSet("a1", []PhaseSpec{
				{Name: "p1", Objects: []*unstructured.Unstructured{ConfigMap("shared", "x"), Widget("w1", 1)}},
				{Name: "p2", Objects: []*unstructured.Unstructured{ConfigMap("dropped", "x")}},
			}))
			rollout(w, "a1")
			w.EnvCreate(NewObjectSet("a2", []PhaseSpec{
				{Name: "p1", Objects: []*unstructured.Unstructured{ConfigMap("shared", "y"), Widget("w1", 2)}},
				{Name: "p2", Objects: []*unstructured.Unstructured{ConfigMap("added", "x")}},
			}, "a1"))
			rollout(w, "a1", "a2")
		}},
		{Name: "deploy", Setup: func(w *World) {
			w.EnvCreate(NewObjectDeployment("d1", TemplateVariant(0)))
		}},
		{Name: "deploy-delegated", Setup: func(w *World) {
			w.TemplateBase = 4
			w.EnvCreate(NewObjectDeployment("d1", TemplateVariant(4)))
		}},
		{Name: "deploy-delegated-3rev", Setup: func(w *World) {
			// revision 1 (w1 in a delegated phase) rolled out, revision 2 (no w1) rolled out and revision 1 archived
			// - its teardown has not run yet -, revision 3 (w1 in a local phase) just created: the teardown of
			// revision 1 (ObjectSetPhase controller) and the rollout of revision 3 (ObjectSet controller) meet at w1
			w.TemplateBase = 4
			w.EnvCreate(NewObjectDeployment("d1", TemplateVariant(4)))
			round := func(n int) {
				for i := 0; i < n; i++ {
					w.RunPass("od", KOD("d1"))
					for _, k := range w.CRKeys("ObjectSet") {
						if getStr(nestedMap(w.Store.Snapshot(k), "spec"), "lifecycleState") != "Archived" {
							w.RunPass("os", k)
						}
					}
					for _, k := range w.CRKeys("ObjectSetPhase") {
						w.RunPass("ph", k)
					}
					for k := range w.ListedObjects() {
						if k.Kind == "Widget" && w.Store.Snapshot(k) != nil {
							w.EnvSetWidgetStatus(k, "Ready")
						}
					}
				}
			}
			round(4)
			w.EnvSetTemplate(KOD("d1"), 6)
			round(7)
			w.EnvSetTemplate(KOD("d1"), 5)
			w.RunPass("od", KOD("d1"))
			// the teardown of revision 1 begins: its ObjectSetPhase object is deleted, the ObjectSetPhase controller's turn
			for _, k := range w.CRKeys("ObjectSet") {
				if getStr(nestedMap(w.Store.Snapshot(k), "spec"), "lifecycleState") == "Archived" {
					w.RunPass("os", k)
				}
			}
		}},
		{Name: "deploy-midarchived", Setup: func(w *World) {
			// revision 1 Available and serving, revision 2 (a failed update) archived as an intermediate revision, revision 3
			// rolling out: the archived revisions are NOT the oldest ones
			w.EnvCreate(NewObjectDeployment("d1", TemplateVariant(0)))
			deployRounds(w, 4, true)
			w.EnvSetTemplate(KOD("d1"), 1)
			deployRounds(w, 3, false)
			w.EnvSetTemplate(KOD("d1"), 2)
			deployRounds(w, 6, false)
		}},
		{Name: "deploy-limit1", Setup: func(w *World) {
			od := NewObjectDeployment("d1", TemplateVariant(0))
			l := int32(1)
			od.Spec.RevisionHistoryLimit = &l
			w.EnvCreate(od)
		}},
		{Name: "deploy-limit1-ghost", Setup: func(w *World) {
			// the cache keeps listing removed revisions for the whole run (delete-not-yet-visible window)
			od := NewObjectDeployment("d1", TemplateVariant(0))
			l := int32(1)
			od.Spec.RevisionHistoryLimit = &l
			w.EnvCreate(od)
			w.Store.HoldGhosts = true
		}},
		{Name: "deploy-limit0", Setup: func(w *World) {
			od := NewObjectDeployment("d1", TemplateVariant(0))
			l := int32(0)
			od.Spec.RevisionHistoryLimit = &l
			w.EnvCreate(od)
		}},
		{Name: "deploy-rolledout", Setup: func(w *World) {
			od := NewObjectDeployment("d1", TemplateVariant(0))
			l := int32(1)
			od.Spec.RevisionHistoryLimit = &l
			w.EnvCreate(od)
			for i := 0; i < 4; i++ {
				w.RunPass("od", KOD("d1"))
				for _, k := range w.CRKeys("ObjectSet") {
					w.RunPass("os", k)
				}
				for k := range w.ListedObjects() {
					if k.Kind == "Widget" {
						w.EnvSetWidgetStatus(k, "Ready")
					}
				}
			}
			w.EnvSetTemplate(KOD("d1"), 1)
		}},
		{Name: "paused-start", Setup: func(w *World) {
			os := NewObjectSet("a1", []PhaseSpec{
				{Name: "p1", Objects: []*unstructured.Unstructured{ConfigMap("cm1", "x"), Widget("w1", 1)}},
				{Name: "p2", Class: "default", Objects: []*unstructured.Unstructured{ConfigMap("cm2", "x")}},
			})
			os.Spec.LifecycleState = corev1alpha1.ObjectSetLifecycleStatePaused
			w.EnvCreate(os)
		}},
	}
}

func ScenarioByName(n string) (Scenario, bool) {
	for _, s := range append(Scenarios(), moreScenarios()...) {
		if s.Name == n {
			return s, true
		}
	}
	return Scenario{}, false
}
