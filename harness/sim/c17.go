package verifsim

import (
	"context"
	"flag"
	"math/rand"
	"reflect"

	metav1 "k8s.io/apimachinery/pkg/apis/meta/v1"
	"k8s.io/apimachinery/pkg/apis/meta/v1/unstructured"

	corev1alpha1 "package-operator.run/apis/core/v1alpha1"
	internalprobing "package-operator.run/internal/probing"
)

// C17 table: abstract probe lists x abstract objects, concretised and run through the real
// internalprobing.Parse + Prober.Probe. TraceProbing.tla computes the expected verdict from the abstract row.

type c17Entry struct {
	Kind  string   `json:"kind"`  // none | match | mismatch | groupMismatch
	Label string   `json:"label"` // none | match | mismatch | notexists (only a negative requirement: key "skip" DoesNotExist)
	Subs  []string `json:"subs"`  // condA | condB | fields | cel | celNonBool
}

type c17Obj struct {
	OG     string `json:"og"`     // absent | equal | stale   (status.observedGeneration)
	Shape  string `json:"shape"`  // ok | garbageFirst | notAList | missing   (status.conditions)
	CondA  string `json:"condA"`  // absent | TrueNoOG | TrueOGeq | TrueOGstale | False
	CondB  string `json:"condB"`  // absent | True
	Fields string `json:"fields"` // equal | different | missingB
	X      int64  `json:"x"`      // spec.x for the CEL rule self.spec.x > 0
	Gen    string `json:"gen"`    // int (metadata.generation = 2) | absent | string ("2"): an unreadable generation counts as 0
	Lab    string `json:"lab"`    // app (labels {app: x}) | none (no labels at all)
}

func c17Concrete(es []c17Entry) []corev1alpha1.ObjectSetProbe {
	var out []corev1alpha1.ObjectSetProbe
	for _, e := range es {
		p := corev1alpha1.ObjectSetProbe{}
		switch e.Kind {
		case "match":
			p.Selector.Kind = &corev1alpha1.PackageProbeKindSpec{Group: gvkWidget.Group, Kind: "Widget"}
		case "mismatch":
			p.Selector.Kind = &corev1alpha1.PackageProbeKindSpec{Group: gvkWidget.Group, Kind: "Gadget"}
		case "groupMismatch": // the same kind name in another API group
			p.Selector.Kind = &corev1alpha1.PackageProbeKindSpec{Group: "other." + gvkWidget.Group, Kind: "Widget"}
		}
		switch e.Label {
		case "match":
			p.Selector.Selector = &metav1.LabelSelector{MatchLabels: map[string]string{"app": "x"}}
		case "mismatch":
			p.Selector.Selector = &metav1.LabelSelector{MatchLabels: map[string]string{"app": "y"}}
		case "notexists":
			p.Selector.Selector = &metav1.LabelSelector{MatchExpressions: []metav1.LabelSelectorRequirement{
				{Key: "skip", Operator: metav1.LabelSelectorOpDoesNotExist}}}
		}
		for _, s := range e.Subs {
			switch s {
			case "condA":
				p.Probes = append(p.Probes, corev1alpha1.Probe{Condition: &corev1alpha1.ProbeConditionSpec{Type: "Available", Status: "True"}})
			case "condB":
				p.Probes = append(p.Probes, corev1alpha1.Probe{Condition: &corev1alpha1.ProbeConditionSpec{Type: "Ready", Status: "True"}})
			case "fields":
				p.Probes = append(p.Probes, corev1alpha1.Probe{FieldsEqual: &corev1alpha1.ProbeFieldsEqualSpec{FieldA: ".spec.a", FieldB: ".status.a"}})
			case "fieldsEmpty": // degenerate paths name no field: the probe fails, whatever the object
				p.Probes = append(p.Probes, corev1alpha1.Probe{FieldsEqual: &corev1alpha1.ProbeFieldsEqualSpec{FieldA: "", FieldB: ""}})
			case "fieldsDots":
				p.Probes = append(p.Probes, corev1alpha1.Probe{FieldsEqual: &corev1alpha1.ProbeFieldsEqualSpec{FieldA: ".", FieldB: ".."}})
			case "fieldsEmptySeg":
				p.Probes = append(p.Probes, corev1alpha1.Probe{FieldsEqual: &corev1alpha1.ProbeFieldsEqualSpec{FieldA: ".spec..a", FieldB: ".status..a"}})
			case "unknown": // a probe of no known type (valid per CRD): contributes nothing
				p.Probes = append(p.Probes, corev1alpha1.Probe{})
			case "cel":
				p.Probes = append(p.Probes, corev1alpha1.Probe{CEL: &corev1alpha1.ProbeCELSpec{Rule: "self.spec.x > 0", Message: "x must be positive"}})
			case "celEmpty":
				p.Probes = append(p.Probes, corev1alpha1.Probe{CEL: &corev1alpha1.ProbeCELSpec{Rule: "self.spec.x > 0", Message: ""}})
			case "celNonBool":
				p.Probes = append(p.Probes, corev1alpha1.Probe{CEL: &corev1alpha1.ProbeCELSpec{Rule: "self.spec.x", Message: "not a bool"}})
			}
		}
		out = append(out, p)
	}
	return out
}

func c17Object(o c17Obj) *unstructured.Unstructured {
	u := Obj(gvkWidget, NS, "probed")
	if o.Lab != "none" {
		u.SetLabels(map[string]string{"app": "x"})
	}
	switch o.Gen {
	case "absent":
	case "string":
		u.Object["metadata"].(map[string]any)["generation"] = "2"
	default:
		u.SetGeneration(2)
	}
	u.Object["spec"] = map[string]any{"a": int64(1), "x": o.X}
	st := map[string]any{}
	switch o.OG {
	case "equal":
		st["observedGeneration"] = int64(2)
	case "stale":
		st["observedGeneration"] = int64(1)
	}
	switch o.Fields {
	case "equal":
		st["a"] = int64(1)
	case "different":
		st["a"] = int64(2)
	}
	conds := []any{}
	if o.Shape == "garbageFirst" {
		conds = append(conds, "garbage")
	}
	switch o.CondA {
	case "TrueNoOG":
		conds = append(conds, map[string]any{"type": "Available", "status": "True"})
	case "TrueOGeq":
		conds = append(conds, map[string]any{"type": "Available", "status": "True", "observedGeneration": int64(2)})
	case "TrueOGstale":
		conds = append(conds, map[string]any{"type": "Available", "status": "True", "observedGeneration": int64(1)})
	case "False":
		conds = append(conds, map[string]any{"type": "Available", "status": "False"})
	}
	if o.CondB == "True" {
		conds = append(conds, map[string]any{"type": "Ready", "status": "True"})
	}
	switch o.Shape {
	case "notAList":
		st["conditions"] = "oops"
	case "missing":
	default:
		st["conditions"] = conds
	}
	u.Object["status"] = st
	return u
}

func c17Entries() []c17Entry {
	subsets := [][]string{{}, {"condA"}, {"condB"}, {"fields"}, {"cel"}, {"condA", "fields"}, {"condA", "condB"}, {"cel", "condA", "fields"}, {"celNonBool"}, {"celEmpty"}, {"celEmpty", "fields"},
		{"fieldsEmpty"}, {"fieldsDots"}, {"fieldsEmptySeg"}, {"fieldsEmpty", "condA"}, {"unknown"}, {"unknown", "condA"}}
	var out []c17Entry
	for _, k := range []string{"none", "match", "mismatch", "groupMismatch"} {
		for _, l := range []string{"none", "match", "mismatch", "notexists"} {
			for _, s := range subsets {
				out = append(out, c17Entry{k, l, s})
			}
		}
	}
	return out
}

func c17Objects() []c17Obj {
	var out []c17Obj
	for _, og := range []string{"absent", "equal", "stale"} {
		for _, sh := range []string{"ok", "garbageFirst", "notAList", "missing"} {
			for _, a := range []string{"absent", "TrueNoOG", "TrueOGeq", "TrueOGstale", "False"} {
				for _, b := range []string{"absent", "True"} {
					for _, f := range []string{"equal", "different", "missingB"} {
						for _, x := range []int64{1, 0} {
							out = append(out, c17Obj{og, sh, a, b, f, x, "int", "app"})
							if f == "equal" && b == "absent" {
								out = append(out, c17Obj{og, sh, a, b, f, x, "absent", "app"}, c17Obj{og, sh, a, b, f, x, "string", "app"},
									c17Obj{og, sh, a, b, f, x, "int", "none"})
							}
						}
					}
				}
			}
		}
	}
	return out
}

func runC17Row(w *World, es []c17Entry, o c17Obj) {
	if es == nil {
		es = []c17Entry{}
	}
	for i := range es {
		if es[i].Subs == nil {
			es[i].Subs = []string{}
		}
	}
	args := map[string]any{"probes": es, "obj": o, "parseErr": false, "success": false, "nmsgs": 0, "unchanged": true, "panic": ""}
	func() {
		defer func() {
			if r := recover(); r != nil {
				args["panic"] = topPKOFrame(string(debugStack()))
			}
		}()
		prober, err := internalprobing.Parse(context.Background(), c17Concrete(es))
		if err != nil {
			args["parseErr"] = true
			return
		}
		obj := c17Object(o)
		before := obj.DeepCopy()
		ok, msgs := prober.Probe(obj)
		args["success"], args["nmsgs"] = ok, len(msgs)
		args["unchanged"] = reflect.DeepEqual(before.Object, obj.Object)
	}()
	w.Emit(Event{Actor: "c17", Ev: "C17Row", Key: "-", Args: args})
}

func init() {
	extraDrivers["probe-table"] = func(w *World, _ *flag.FlagSet, a driverArgs) int {
		entries, objs := c17Entries(), c17Objects()
		w.Emit(Event{Actor: "sim", Ev: "Reset", Key: "-", Args: map[string]any{"scenario": "probe-table"}})
		n := 0
		emit := func(es []c17Entry, o c17Obj) {
			n++
			if n%a.shards == a.shard {
				runC17Row(w, es, o)
			}
		}
		// exhaustive part: empty list and every single-entry list x every object
		for _, o := range objs {
			emit(nil, o)
			for _, e := range entries {
				emit([]c17Entry{e}, o)
			}
		}
		// sampled part: lists of 2..3 entries
		rng := rand.New(rand.NewSource(a.seed))
		for i := 0; i < a.n; i++ {
			k := 2 + rng.Intn(2)
			var es []c17Entry
			for j := 0; j < k; j++ {
				es = append(es, entries[rng.Intn(len(entries))])
			}
			emit(es, objs[rng.Intn(len(objs))])
		}
		return 0
	}
}
