package verifsim

import (
	"context"
	"encoding/json"
	"fmt"
	"io"
	"os"
	"runtime/debug"
	"strings"
	"sync"
	"time"

	"k8s.io/apimachinery/pkg/runtime/schema"
	"k8s.io/apimachinery/pkg/types"
	ctrl "sigs.k8s.io/controller-runtime"
	"sigs.k8s.io/controller-runtime/pkg/reconcile"
)

// Event is one line of the ndjson trace. Every event has every field (TLC records are uniform).
type Event struct {
	I      int            `json:"i"`
	Actor  string         `json:"actor"`  // os | ph | od | pk | tm | env | sim
	Pass   int            `json:"pass"`   // pass id, 0 for env/sim events
	Target string         `json:"target"` // key of the reconciled object
	Ev     string         `json:"ev"`
	Key    string         `json:"key"`
	Role   string         `json:"role"` // client | uncached | dyn | -
	Dry    bool           `json:"dry"`
	Res    string         `json:"res"`
	Pre    Proj           `json:"pre"`
	Post   Proj           `json:"post"`
	Args   map[string]any `json:"args"`
}

type callInfo struct {
	verb string
	key  Key
	role string
	dry  bool
}

type grantMsg struct {
	fault string // "" | "before" | "after" | "dead"
}

type parkMsg struct {
	finished bool
	call     callInfo
	res      reconcile.Result
	err      error
	panicked string
}

// Pass is one in-flight reconcile.
type Pass struct {
	ID      int
	Actor   string
	Target  Key
	grant   chan grantMsg
	parked  chan parkMsg
	Pending *callInfo // the API call this pass is blocked on (nil = finished)
	Calls   int
	dead    bool
	Result  reconcile.Result
	Err     error
	Writes  int // state-changing non-dry writes issued by this pass
	Snapshot map[string]any // the reconciled object as first read by this pass
	Pulled  string // Package controller: class of the package content pulled in this pass ("" = no pull)
}

type passKey struct{}

// Sim wires the store, the controllers, the scheduler gate and the tracer.
type Sim struct {
	faultSeq int // cycles the kind of injected API fault
	Store *Store
	Dyn   *DynCache
	Ctrls map[string]reconcile.Reconciler

	mu      sync.Mutex
	out     io.Writer
	nEvents int
	Events  []Event
	passSeq int
	KeepEvents bool

	// Projector turns a stored object into its abstract projection.
	Proj *Projector

	StepTimeout time.Duration
	// AnnotationActors: controllers that use the annotation owner strategy.
	AnnotationActors map[string]bool
	Panics      int
}

func NewSim(out io.Writer) *Sim {
	s := &Sim{
		Store:       NewStore(),
		Ctrls:       map[string]reconcile.Reconciler{},
		out:         out,
		StepTimeout: 20 * time.Second,
		AnnotationActors: map[string]bool{},
	}
	s.Proj = &Projector{ClusterScoped: func(group, kind string) bool {
		ki, ok := s.Store.kinds[schema.GroupKind{Group: group, Kind: kind}]
		return ok && !ki.Namespaced
	}}
	theProjector = s.Proj
	s.Dyn = NewDynCache(s)
	return s
}

func (s *Sim) SetOut(w io.Writer) { s.out = w }

func (s *Sim) Emit(e Event) {
	s.mu.Lock()
	defer s.mu.Unlock()
	s.nEvents++
	e.I = s.nEvents
	if e.Args == nil {
		e.Args = map[string]any{}
	}
	if e.Role == "" {
		e.Role = "-"
	}
	if e.Res == "" {
		e.Res = "ok"
	}
	e.Pre.fill()
	e.Post.fill()
	if s.KeepEvents {
		s.Events = append(s.Events, e)
	}
	if s.out != nil {
		b, err := json.Marshal(e)
		if err != nil {
			panic(err)
		}
		s.out.Write(append(b, '\n'))
	}
}

func (s *Sim) NumEvents() int { return s.nEvents }

func passFrom(ctx context.Context) *Pass {
	p, _ := ctx.Value(passKey{}).(*Pass)
	return p
}

// gate blocks the calling reconcile goroutine until the scheduler grants the call.
// It returns the fault to inject: "" | "before" | "after" | "dead".
func (s *Sim) gate(ctx context.Context, ci callInfo) (p *Pass, fault string) {
	p = passFrom(ctx)
	if p == nil {
		return nil, ""
	}
	if p.dead {
		return p, "dead"
	}
	p.parked <- parkMsg{call: ci}
	g := <-p.grant
	if g.fault == "dead" {
		p.dead = true
	}
	return p, g.fault
}

// StartPass launches controller `actor` on `target` and runs it up to its first API call.
func (s *Sim) StartPass(actor string, target Key) *Pass {
	c, ok := s.Ctrls[actor]
	if !ok {
		panic("no controller " + actor)
	}
	s.passSeq++
	p := &Pass{ID: s.passSeq, Actor: actor, Target: target, grant: make(chan grantMsg), parked: make(chan parkMsg, 1)}
	strategy := "native"
	if s.AnnotationActors[actor] {
		strategy = "annotation"
	}
	s.Emit(Event{Actor: actor, Pass: p.ID, Target: target.String(), Ev: "PassBegin", Key: target.String(),
		Args: map[string]any{"oid": target.Kind + "/" + target.Name, "strategy": strategy,
			"forced": len(os.Getenv("PKO_FORCE_ADOPTION")) > 0}})
	ctx := context.WithValue(context.Background(), passKey{}, p)
	go func() {
		var res reconcile.Result
		var err error
		panicked := ""
		func() {
			defer func() {
				if r := recover(); r != nil {
					panicked = fmt.Sprintf("%v @ %s", r, topPKOFrame(string(debug.Stack())))
				}
			}()
			res, err = c.Reconcile(ctx, ctrl.Request{NamespacedName: types.NamespacedName{Namespace: target.NS, Name: target.Name}})
		}()
		_ = res
		p.parked <- parkMsg{finished: true, res: res, err: err, panicked: panicked}
	}()
	s.await(p)
	return p
}

// topPKOFrame extracts the first package-operator frame below the panic from a stack dump.
func topPKOFrame(stack string) string {
	lines := strings.Split(stack, "\n")
	seenPanic := false
	for i, l := range lines {
		if strings.HasPrefix(l, "panic(") {
			seenPanic = true
			continue
		}
		if !seenPanic {
			continue
		}
		if strings.HasPrefix(l, "package-operator.run/") && !strings.Contains(l, "verifsim") {
			fn := l
			if j := strings.LastIndex(fn, "("); j > 0 {
				fn = fn[:j]
			}
			loc := ""
			if i+1 < len(lines) {
				loc = strings.TrimSpace(lines[i+1])
				if j := strings.Index(loc, " +"); j > 0 {
					loc = loc[:j]
				}
				loc = strings.TrimPrefix(loc, "/repo/")
			}
			return fn + " " + loc
		}
	}
	return "unknown"
}

func (s *Sim) await(p *Pass) {
	select {
	case m := <-p.parked:
		if m.finished {
			p.Pending = nil
			p.Result, p.Err = m.res, m.err
			if p.dead {
				return
			}
			if m.panicked != "" {
				s.Panics++
				s.Emit(Event{Actor: p.Actor, Pass: p.ID, Target: p.Target.String(), Ev: "Panic", Key: p.Target.String(),
					Res: "panic", Args: map[string]any{"frame": m.panicked}})
			}
			res := "ok"
			if m.err != nil {
				res = "err"
			}
			s.Emit(Event{Actor: p.Actor, Pass: p.ID, Target: p.Target.String(), Ev: "PassEnd", Key: p.Target.String(), Res: res,
				Args: map[string]any{"requeue": m.res.RequeueAfter > 0 || m.res.Requeue, "err": errString(m.err), "writes": p.Writes}})
			return
		}
		c := m.call
		p.Pending = &c
	case <-time.After(s.StepTimeout):
		p.Pending = nil
		p.dead = true
		s.Emit(Event{Actor: p.Actor, Pass: p.ID, Target: p.Target.String(), Ev: "Timeout", Key: p.Target.String(), Res: "timeout"})
	}
}

func errString(err error) string {
	if err == nil {
		return ""
	}
	e := err.Error()
	if len(e) > 300 {
		e = e[:300]
	}
	return e
}

// Step grants the pending call of p (optionally with a fault) and runs p to its next call / end.
// Returns true when the pass has finished.
func (s *Sim) Step(p *Pass, fault string) bool {
	if p.Pending == nil {
		return true
	}
	p.Calls++
	p.grant <- grantMsg{fault: fault}
	s.await(p)
	return p.Pending == nil
}

// RunPass runs a whole pass without interleaving.
func (s *Sim) RunPass(actor string, target Key) *Pass {
	p := s.StartPass(actor, target)
	for !s.Step(p, "") {
	}
	return p
}

// Abandon models a process crash for this pass: it gets no further API effects and emits nothing.
func (s *Sim) Abandon(p *Pass) {
	if p.Pending == nil {
		return
	}
	p.dead = true
	p.grant <- grantMsg{fault: "dead"}
	// drain
	for {
		m := <-p.parked
		if m.finished {
			break
		}
	}
	p.Pending = nil
}

func debugStack() []byte { return debug.Stack() }
