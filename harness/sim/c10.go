package verifsim

import (
	"flag"
	"fmt"
	"math/rand"
	"os"
	"strings"

	"k8s.io/apimachinery/pkg/apis/meta/v1/unstructured"
)

// C10: convergence. A staged scenario is run once undisturbed (reference) and then once per
// (API-call index × fault kind) / per seeded chaos walk; every run ends with a Quiesced event that
// carries the reference end state. TraceObs compares ITS OWN tracked store with that reference.

type StagedScenario struct {
	// NoDrift: the scenario ends paused, so third-party drift is (by C09) not repaired; only faults and crashes apply
	NoDrift bool
	// Drifts: drift kinds that apply although NoDrift is set
	Drifts []string
	Name   string
	Stages []func(w *World)
}

func containsStr(l []string, s string) bool {
	for _, x := range l {
		if x == s {
			return true
		}
	}
	return false
}

func StagedScenarios() []StagedScenario {
	two := []PhaseSpec{
		{Name: "p1", Objects: []*unstructured.Unstructured{ConfigMap("cm1", "x"), Widget("w1", 1)}},
		{Name: "p2", Objects: []*unstructured.Unstructured{Widget("w2", 1), ConfigMap("cm2", "x")}},
	}
	mk := func(name string, phases []PhaseSpec, prev ...string) func(w *World) {
		return func(w *World) { w.EnvCreate(NewObjectSet(name, phases, prev...)) }
	}
	h2 := []PhaseSpec{
		{Name: "p1", Objects: []*unstructured.Unstructured{ConfigMap("cm1", "y"), Widget("w1", 2)}},
		{Name: "p2", Objects: []*unstructured.Unstructured{ConfigMap("cm3", "x")}},
	}
	deleg := []PhaseSpec{
		{Name: "p1", Class: "default", Objects: []*unstructured.Unstructured{ConfigMap("cm1", "x"), Widget("w1", 1)}},
		{Name: "p2", Objects: []*unstructured.Unstructured{Widget("w2", 1)}},
	}
	deleg2 := []PhaseSpec{
		{Name: "p1", Class: "default", Objects: []*unstructured.Unstructured{ConfigMap("cm1", "y"), Widget("w1", 2)}},
		{Name: "p2", Objects: []*unstructured.Unstructured{Widget("w2", 1)}},
	}
	return []StagedScenario{
		{Name: "c10-rollout", Stages: []func(*World){mk("a1", two)}},
		{Name: "c10-handover", Stages: []func(*World){mk("a1", two), mk("a2", h2, "a1"),
			func(w *World) { w.EnvSetLifecycle(KOS("a1"), "Paused") },
			func(w *World) { w.EnvSetLifecycle(KOS("a1"), "Archived") }}},
		// a stand-alone ObjectSet is paused and then drifts: it must keep observing (also after a restart while paused)
		{Name: "c10-paused-drift", NoDrift: true, Stages: []func(*World){mk("a1", two),
			func(w *World) { w.EnvSetLifecycle(KOS("a1"), "Paused") },
			func(w *World) { w.EnvDelete(Key{"", "ConfigMap", NS, "cm2"}, false) }}},
		{Name: "c10-teardown", Stages: []func(*World){mk("a1", two), func(w *World) { w.EnvDelete(KOS("a1"), false) }}},
		{Name: "c10-archive", Stages: []func(*World){mk("a1", two), func(w *World) { w.EnvSetLifecycle(KOS("a1"), "Archived") }}},
		// a revision with a delegated phase is replaced: adoption goes through the phase object recorded in status.remotePhases
		{Name: "c10-delegated-handover", Stages: []func(*World){mk("a1", deleg), mk("a2", deleg2, "a1"),
			func(w *World) { w.EnvSetLifecycle(KOS("a1"), "Paused") },
			func(w *World) { w.EnvSetLifecycle(KOS("a1"), "Archived") }}},
		{Name: "c10-delegated", Stages: []func(*World){mk("a1", deleg), func(w *World) { w.EnvDelete(KOS("a1"), false) }}},
		{Name: "c10-sliced", Stages: []func(*World){func(w *World) {
			sc, _ := ScenarioByName("sliced")
			sc.Setup(w)
		}, func(w *World) { w.EnvSetLifecycle(KOS("a1"), "Archived") }}},
		{Name: "c10-deploy", Stages: []func(*World){
			func(w *World) { w.EnvCreate(NewObjectDeployment("d1", TemplateVariant(0))) },
			func(w *World) { w.EnvSetTemplate(KOD("d1"), 1) }}},
		// a paused deployment keeps its revisions paused: a child revision somebody re-activates by hand is paused again
		{Name: "c10-deploy-paused", NoDrift: true, Drifts: []string{"drift-child-lifecycle"}, Stages: []func(*World){
			func(w *World) { w.EnvCreate(NewObjectDeployment("d1", TemplateVariant(0))) },
			func(w *World) { w.EnvSetPaused(KOD("d1"), true) }}},
	}
}

// disturbance injected into the call stream of a staged run
type disturbance struct {
	at   int    // global index of the API call (over the whole run) at which it strikes; -1 = none
	kind string // before | after | crash | drift-edit | drift-delete | drift-label | drift-rev
}

// lastApplic: for every API-call index of the last reference run, which targeted disturbances would find something to act on
// (bit 0: an ObjectSetPhase object exists; bit 1: a revision paused by its deployment exists)
var lastApplic []uint8

type stagedRunner struct {
	applic []uint8
	w      *World
	calls  int
	dist   []disturbance
	rng    *rand.Rand
	fired  int
}

func (sr *stagedRunner) readyWidgets() {
	for _, k := range sortedKeys(sr.w.ListedObjects()) {
		if k.Kind == "Widget" {
			m := sr.w.Store.Snapshot(k)
			if m != nil && probeClass(m) != "Ready" {
				sr.w.EnvSetWidgetStatus(k, "Ready")
			}
		}
	}
}

func (sr *stagedRunner) drift(kind string) {
	w := sr.w
	var existing []Key
	for _, k := range sortedKeys(w.ListedObjects()) {
		if w.Store.Snapshot(k) != nil {
			existing = append(existing, k)
		}
	}
	if len(existing) == 0 {
		return
	}
	k := existing[sr.rng.Intn(len(existing))]
	switch kind {
	case "drift-child-lifecycle":
		// somebody re-activates a revision its deployment had paused (the paused-by-parent mark stays where it is)
		for _, sk := range w.CRKeys("ObjectSet") {
			m := w.Store.Snapshot(sk)
			if m != nil && len(ownerRefs(m)) > 0 && getStr(nestedMap(m, "spec"), "lifecycleState") == "Paused" {
				w.EnvSetLifecycle(sk, "Active")
				break
			}
		}
	case "drift-phase":
		// somebody deletes an ObjectSetPhase object: the ObjectSet re-creates it, its controller re-creates the objects
		var phases []Key
		for _, pk := range w.Store.Keys() {
			if pk.Kind == "ObjectSetPhase" && w.Store.Snapshot(pk) != nil {
				phases = append(phases, pk)
			}
		}
		if len(phases) > 0 {
			w.EnvDelete(phases[sr.rng.Intn(len(phases))], false)
		}
	case "drift-edit":
		w.EnvEditContent(k, "d")
	case "drift-delete":
		w.EnvDelete(k, false)
	case "drift-label":
		w.EnvDropCacheLabel(k)
	case "drift-rev":
		w.EnvSetRevAnnotation(k, "")
	}
}

// runPass runs one pass call by call, applying the disturbances that fall on its calls.
// Returns (writes, crashed).
func (sr *stagedRunner) runPass(actor string, target Key) (int, bool) {
	w := sr.w
	p := w.StartPass(actor, target)
	for p.Pending != nil {
		fault := ""
		for _, d := range sr.dist {
			if d.at == sr.calls {
				sr.fired++
				switch d.kind {
				case "before", "after":
					fault = d.kind
				case "crash":
					sr.calls++
					w.Abandon(p)
					w.Restart()
					return 1, true
				default:
					sr.drift(d.kind)
				}
			}
		}
		if sr.dist == nil {
			var b uint8
			for _, k := range w.Store.Keys() {
				if k.Group != pkoGroup {
					continue
				}
				if k.Kind == "ObjectSetPhase" {
					b |= 1
				} else if k.Kind == "ObjectSet" {
					if m := w.Store.Snapshot(k); m != nil && len(ownerRefs(m)) > 0 && getStr(nestedMap(m, "spec"), "lifecycleState") == "Paused" {
						b |= 2
					}
				}
			}
			sr.applic = append(sr.applic, b)
		}
		sr.calls++
		w.Step(p, fault)
	}
	if p.Err != nil {
		return p.Writes + 1, false // a failed pass is retried: the round is not quiet
	}
	return p.Writes, false
}

// settle: fair round-robin until two write-free rounds; workload controller makes every Widget Ready.
func (sr *stagedRunner) settle(maxRounds int) bool {
	w := sr.w
	quiet := 0
	for r := 0; r < maxRounds && quiet < 2; r++ {
		writes := 0
		w.EnvSyncCache()
		before := w.Store.rvSeq
		for _, rc := range w.Reconcilables() {
			if w.Store.Snapshot(rc[1].(Key)) == nil {
				continue
			}
			n, crashed := sr.runPass(rc[0].(string), rc[1].(Key))
			writes += n
			if crashed {
				break
			}
		}
		sr.readyWidgets()
		if len(w.EnvGC()) > 0 {
			writes++
		}
		if w.Store.rvSeq != before {
			writes++
		}
		if writes == 0 {
			quiet++
		} else {
			quiet = 0
		}
	}
	return quiet >= 2
}

// RunStaged executes a staged scenario with the given disturbances; ref=nil marks the reference run.
func RunStaged(w *World, sc StagedScenario, label string, dist []disturbance, seed int64, ref []any) (state []any, calls int, ok bool) {
	w.AnnotationPhases = false
	w.Reset(sc.Name + "/" + label)
	sr := &stagedRunner{w: w, dist: dist, rng: rand.New(rand.NewSource(seed))}
	ok = true
	for _, st := range sc.Stages {
		st(w)
		if !sr.settle(60) {
			ok = false
		}
	}
	// disturbances have stopped: final settle with no disturbance left
	sr.dist = nil
	if !sr.settle(60) {
		ok = false
	}
	if dist == nil && ref == nil {
		lastApplic = sr.applic
	}
	state = w.StateDigest()
	args := map[string]any{"state": state, "dynRefs": w.Dyn.Refs(), "hasRef": ref != nil, "ref": []any{}, "calls": sr.calls, "fired": sr.fired}
	if ref != nil {
		args["ref"] = ref
	}
	w.Emit(Event{Actor: "sim", Ev: "Quiesced", Key: "-", Res: map[bool]string{true: "ok", false: "diverged"}[ok], Args: args})
	return state, sr.calls, ok
}

func init() {
	extraDrivers["fault-sweep"] = func(w *World, _ *flag.FlagSet, a driverArgs) int {
		// -n: max number of disturbed runs per scenario (0 = every call index × every kind); -mode pairs: two faults
		scs := StagedScenarios()
		kinds := []string{"before", "after", "crash", "drift-edit", "drift-delete", "drift-label", "drift-rev", "drift-phase", "drift-child-lifecycle"}
		job := 0
		for _, sc := range scs {
			ref, calls, ok := RunStaged(w, sc, "reference", nil, 0, nil)
			if !ok {
				fmt.Fprintln(os.Stderr, "reference run of", sc.Name, "did not quiesce")
			}
			type cand struct {
				d []disturbance
				l string
			}
			var cands []cand
			for at := 0; at < calls; at++ {
				for _, k := range kinds {
					if sc.NoDrift && strings.HasPrefix(k, "drift") && !containsStr(sc.Drifts, k) {
						continue
					}
					// targeted disturbances only where they find something to act on in the reference run (a sampled
					// disturbance that is a no-op tells nothing)
					if at < len(lastApplic) && ((k == "drift-phase" && lastApplic[at]&1 == 0) || (k == "drift-child-lifecycle" && lastApplic[at]&2 == 0)) {
						continue
					}
					cands = append(cands, cand{[]disturbance{{at, k}}, fmt.Sprintf("%s@%d", k, at)})
				}
			}
			if a.mode == "pairs" {
				rng := rand.New(rand.NewSource(a.seed))
				var pairs []cand
				for i := 0; i < len(cands)*2; i++ {
					x, y := cands[rng.Intn(len(cands))], cands[rng.Intn(len(cands))]
					pairs = append(pairs, cand{append(append([]disturbance{}, x.d...), y.d...), x.l + "+" + y.l})
				}
				cands = pairs
			}
			if a.n > 0 && a.n < len(cands) {
				rng := rand.New(rand.NewSource(a.seed + 7))
				rng.Shuffle(len(cands), func(i, j int) { cands[i], cands[j] = cands[j], cands[i] })
				cands = cands[:a.n]
			}
			for _, c := range cands {
				job++
				if job%a.shards != a.shard {
					continue
				}
				RunStaged(w, sc, c.l, c.d, a.seed+int64(job), ref)
			}
		}
		return 0
	}
}

func newRng(seed int64) *rand.Rand { return rand.New(rand.NewSource(seed)) }
