// Package verifsim is the implementation-side harness of the TLA+ conformance checks.
// It is compiled into /repo with `go build -overlay` (never copied there).
//
// store.go: an in-memory model of the Kubernetes API server, the Go twin of spec/Store.tla.
package verifsim

import (
	"encoding/json"
	"fmt"
	"reflect"
	"sort"
	"strconv"
	"strings"
	"sync"

	jsonpatch "gopkg.in/evanphx/json-patch.v4"
	apierrors "k8s.io/apimachinery/pkg/api/errors"
	"k8s.io/apimachinery/pkg/api/meta"
	metav1 "k8s.io/apimachinery/pkg/apis/meta/v1"
	"k8s.io/apimachinery/pkg/apis/meta/v1/unstructured"
	"k8s.io/apimachinery/pkg/labels"
	"k8s.io/apimachinery/pkg/runtime/schema"
)

// Key identifies an object in the store.
type Key struct {
	Group, Kind, NS, Name string
}

func (k Key) String() string {
	s := k.Kind
	if k.NS != "" {
		s += "/" + k.NS
	}
	return s + "/" + k.Name
}

// KindInfo describes a registered API.
type KindInfo struct {
	GVK        schema.GroupVersionKind
	Namespaced bool
	StatusSub  bool // has a status subresource
	// DryRunReject: names whose writes are rejected (Invalid) by admission — used for preflight scenarios.
}

type Store struct {
	mu          sync.Mutex
	objs        map[Key]map[string]any
	lastApplied map[Key]map[string]any // what field manager "package-operator" applied last
	kinds       map[schema.GroupKind]KindInfo
	extra       []KindInfo // further served versions of registered kinds
	uidSeq      int
	rvSeq       int
	// rejectNames: object names that admission rejects with Invalid (dry-run and real).
	RejectNames map[string]bool
	// DryRunErr: object names whose DRY-RUN requests fail with a server-side API error that is not a verdict
	// about the object (InternalError, TooManyRequests, ServiceUnavailable, Timeout).
	DryRunErr map[string]string
	// cache view of the manager cache (PKO CRs) when lag is enabled
	Lag       bool
	cacheObjs map[Key]map[string]any
	// LagCreates: a created PKO object stays invisible to cached reads until SyncCreates (the
	// "create not yet visible" window of the manager cache). Invisible holds those keys.
	LagCreates bool
	Invisible  map[Key]bool
	// Ghosts: with LagCreates, an ObjectSet that was finally removed is still served by cached reads until
	// SyncCreates (the "delete not yet visible" window of the manager cache).
	Ghosts      map[Key]map[string]any
	ghostAge    int
	HoldGhosts  bool // scenario option: ghosts stay until the run settles
	FlushGhosts bool // SyncCreates also ends every delete-not-yet-visible window (used when settling)
	// immutable spec fields of ObjectSets enforced like the CRD's CEL rules
	mapper *meta.DefaultRESTMapper
}

func NewStore() *Store {
	return &Store{
		objs:        map[Key]map[string]any{},
		lastApplied: map[Key]map[string]any{},
		kinds:       map[schema.GroupKind]KindInfo{},
		RejectNames: map[string]bool{},
		DryRunErr:   map[string]string{},
		cacheObjs:   map[Key]map[string]any{},
		Invisible:   map[Key]bool{},
		Ghosts:      map[Key]map[string]any{},
		mapper:      meta.NewDefaultRESTMapper(nil),
	}
}

func (s *Store) Register(gvk schema.GroupVersionKind, namespaced, statusSub bool) {
	s.kinds[gvk.GroupKind()] = KindInfo{GVK: gvk, Namespaced: namespaced, StatusSub: statusSub}
	scope := meta.RESTScopeRoot
	if namespaced {
		scope = meta.RESTScopeNamespace
	}
	s.mapper.Add(gvk, scope)
}

// AlsoServe adds a further served version of a registered kind: the same objects under another apiVersion.
func (s *Store) AlsoServe(gvk schema.GroupVersionKind, namespaced bool) {
	scope := meta.RESTScopeRoot
	if namespaced {
		scope = meta.RESTScopeNamespace
	}
	s.mapper.Add(gvk, scope)
	s.extra = append(s.extra, KindInfo{GVK: gvk, Namespaced: namespaced})
}

func (s *Store) Unregister(gk schema.GroupKind) {
	delete(s.kinds, gk)
	// rebuild mapper
	m := meta.NewDefaultRESTMapper(nil)
	for _, ki := range s.kinds {
		scope := meta.RESTScopeRoot
		if ki.Namespaced {
			scope = meta.RESTScopeNamespace
		}
		m.Add(ki.GVK, scope)
	}
	for _, ki := range s.extra {
		if _, ok := s.kinds[ki.GVK.GroupKind()]; ok {
			scope := meta.RESTScopeRoot
			if ki.Namespaced {
				scope = meta.RESTScopeNamespace
			}
			m.Add(ki.GVK, scope)
		}
	}
	s.mapper = m
}

func (s *Store) RESTMapper() meta.RESTMapper { return storeMapper{s} }

type storeMapper struct{ s *Store }

func (m storeMapper) cur() meta.RESTMapper { return m.s.mapper }
func (m storeMapper) KindFor(r schema.GroupVersionResource) (schema.GroupVersionKind, error) {
	return m.cur().KindFor(r)
}
func (m storeMapper) KindsFor(r schema.GroupVersionResource) ([]schema.GroupVersionKind, error) {
	return m.cur().KindsFor(r)
}
func (m storeMapper) ResourceFor(r schema.GroupVersionResource) (schema.GroupVersionResource, error) {
	return m.cur().ResourceFor(r)
}
func (m storeMapper) ResourcesFor(r schema.GroupVersionResource) ([]schema.GroupVersionResource, error) {
	return m.cur().ResourcesFor(r)
}
func (m storeMapper) RESTMapping(gk schema.GroupKind, versions ...string) (*meta.RESTMapping, error) {
	return m.cur().RESTMapping(gk, versions...)
}
func (m storeMapper) RESTMappings(gk schema.GroupKind, versions ...string) ([]*meta.RESTMapping, error) {
	return m.cur().RESTMappings(gk, versions...)
}
func (m storeMapper) ResourceSingularizer(r string) (string, error) {
	return m.cur().ResourceSingularizer(r)
}

func gr(gk schema.GroupKind) schema.GroupResource {
	return schema.GroupResource{Group: gk.Group, Resource: strings.ToLower(gk.Kind) + "s"}
}

func deepCopyMap(m map[string]any) map[string]any {
	if m == nil {
		return nil
	}
	return (&unstructured.Unstructured{Object: m}).DeepCopy().Object
}

// normalize round-trips through JSON so that all numbers are int64/float64 as an apiserver would return.
func normalize(m map[string]any) map[string]any {
	b, err := json.Marshal(m)
	if err != nil {
		panic(err)
	}
	u := &unstructured.Unstructured{}
	if err := u.UnmarshalJSON(b); err != nil {
		// objects without kind
		var out map[string]any
		if err2 := json.Unmarshal(b, &out); err2 != nil {
			panic(err2)
		}
		return out
	}
	return u.Object
}

// keyFor resolves the storage key of a request, applying the scope rule
// (cluster-scoped kinds: the namespace is cleared).
func (s *Store) keyFor(gvk schema.GroupVersionKind, ns, name string) (Key, KindInfo, error) {
	ki, ok := s.kinds[gvk.GroupKind()]
	if !ok {
		return Key{}, ki, &meta.NoKindMatchError{GroupKind: gvk.GroupKind(), SearchedVersions: []string{gvk.Version}}
	}
	if !ki.Namespaced {
		ns = ""
	} else if ns == "" {
		return Key{gvk.Group, gvk.Kind, ns, name}, ki, apierrors.NewBadRequest("an empty namespace may not be set when a resource name is provided")
	}
	return Key{gvk.Group, gvk.Kind, ns, name}, ki, nil
}

func (s *Store) nextRV() string {
	s.rvSeq++
	return strconv.Itoa(s.rvSeq)
}

func (s *Store) nextUID() string {
	s.uidSeq++
	return fmt.Sprintf("u%d", s.uidSeq)
}

func metaOf(m map[string]any) map[string]any {
	md, _ := m["metadata"].(map[string]any)
	if md == nil {
		md = map[string]any{}
		m["metadata"] = md
	}
	return md
}

func getStr(m map[string]any, k string) string {
	v, _ := m[k].(string)
	return v
}

// specPart returns the object without metadata and status (used to decide generation bumps).
func specPart(m map[string]any) map[string]any {
	out := map[string]any{}
	for k, v := range m {
		if k == "metadata" || k == "status" {
			continue
		}
		out[k] = v
	}
	return out
}

func finalizersOf(m map[string]any) []any {
	f, _ := metaOf(m)["finalizers"].([]any)
	return f
}

// Snapshot returns a deep copy of the stored object or nil.
func (s *Store) Snapshot(k Key) map[string]any {
	s.mu.Lock()
	defer s.mu.Unlock()
	return deepCopyMap(s.objs[k])
}

func (s *Store) Keys() []Key {
	s.mu.Lock()
	defer s.mu.Unlock()
	ks := make([]Key, 0, len(s.objs))
	for k := range s.objs {
		ks = append(ks, k)
	}
	sort.Slice(ks, func(i, j int) bool { return ks[i].String() < ks[j].String() })
	return ks
}

// ---- semantic operations (all return API errors like an apiserver) ----

func (s *Store) ghost(k Key, m map[string]any) {
	if s.LagCreates && (k.Kind == "ObjectSet" || k.Kind == "ClusterObjectSet") {
		s.Ghosts[k] = deepCopyMap(m)
	}
}

func (s *Store) get(k Key, cached bool) (map[string]any, error) {
	src := s.objs
	if cached && s.Lag {
		src = s.cacheObjs
	}
	o, ok := src[k]
	if ok && cached && s.Invisible[k] {
		ok = false
	}
	if g, isGhost := s.Ghosts[k]; !ok && cached && isGhost {
		o, ok = g, true
	}
	if !ok {
		return nil, apierrors.NewNotFound(gr(schema.GroupKind{Group: k.Group, Kind: k.Kind}), k.Name)
	}
	return deepCopyMap(o), nil
}

func (s *Store) list(gk schema.GroupKind, ns string, sel labels.Selector, cached bool) []map[string]any {
	src := s.objs
	if cached && s.Lag {
		src = s.cacheObjs
	}
	var out []map[string]any
	all := src
	if cached && len(s.Ghosts) > 0 {
		all = map[Key]map[string]any{}
		for k, o := range src {
			all[k] = o
		}
		for k, g := range s.Ghosts {
			if _, ok := all[k]; !ok {
				all[k] = g
			}
		}
	}
	for k, o := range all {
		if k.Group != gk.Group || k.Kind != gk.Kind {
			continue
		}
		if ns != "" && k.NS != ns {
			continue
		}
		if cached && s.Invisible[k] {
			continue
		}
		if sel != nil {
			lbls := map[string]string{}
			if l, ok := metaOf(o)["labels"].(map[string]any); ok {
				for lk, lv := range l {
					lbls[lk], _ = lv.(string)
				}
			}
			if !sel.Matches(labels.Set(lbls)) {
				continue
			}
		}
		out = append(out, deepCopyMap(o))
	}
	sort.Slice(out, func(i, j int) bool {
		return getStr(metaOf(out[i]), "name") < getStr(metaOf(out[j]), "name")
	})
	return out
}

func (s *Store) admit(k Key, m map[string]any) error {
	if s.RejectNames[k.Name] {
		return apierrors.NewInvalid(schema.GroupKind{Group: k.Group, Kind: k.Kind}, k.Name, nil)
	}
	return nil
}

func (s *Store) put(k Key, m map[string]any) {
	s.objs[k] = m
	if !s.Lag {
		return
	}
}

// SyncCache makes the manager cache catch up for one key (or all keys if k is nil).
func (s *Store) SyncCache(k *Key) {
	s.mu.Lock()
	defer s.mu.Unlock()
	if k == nil {
		s.cacheObjs = map[Key]map[string]any{}
		for kk, o := range s.objs {
			s.cacheObjs[kk] = deepCopyMap(o)
		}
		return
	}
	if o, ok := s.objs[*k]; ok {
		s.cacheObjs[*k] = deepCopyMap(o)
	} else {
		delete(s.cacheObjs, *k)
	}
}

// CacheStale reports keys whose cache view differs from the store.
func (s *Store) CacheStale() []Key {
	s.mu.Lock()
	defer s.mu.Unlock()
	var out []Key
	if !s.Lag {
		return nil
	}
	for k, o := range s.objs {
		if c, ok := s.cacheObjs[k]; !ok || getStr(metaOf(c), "resourceVersion") != getStr(metaOf(o), "resourceVersion") {
			out = append(out, k)
		}
	}
	for k := range s.cacheObjs {
		if _, ok := s.objs[k]; !ok {
			out = append(out, k)
		}
	}
	sort.Slice(out, func(i, j int) bool { return out[i].String() < out[j].String() })
	return out
}

func (s *Store) create(k Key, ki KindInfo, in map[string]any, dry bool) (map[string]any, error) {
	if _, ok := s.objs[k]; ok {
		return nil, apierrors.NewAlreadyExists(gr(ki.GVK.GroupKind()), k.Name)
	}
	if err := s.admit(k, in); err != nil {
		return nil, err
	}
	m := normalize(in)
	md := metaOf(m)
	if k.NS == "" {
		delete(md, "namespace")
	} else {
		md["namespace"] = k.NS
	}
	md["name"] = k.Name
	if ki.StatusSub {
		delete(m, "status")
	}
	delete(md, "deletionTimestamp")
	md["generation"] = int64(1)
	md["creationTimestamp"] = "2024-01-01T00:00:00Z"
	if dry {
		md["uid"] = "dry"
		md["resourceVersion"] = "dry"
		return m, nil
	}
	md["uid"] = s.nextUID()
	md["resourceVersion"] = s.nextRV()
	s.put(k, m)
	return deepCopyMap(m), nil
}

func conflict(k Key, msg string) error {
	return apierrors.NewConflict(gr(schema.GroupKind{Group: k.Group, Kind: k.Kind}), k.Name, fmt.Errorf("%s", msg))
}

// finish applies the common post-write rules: immutable metadata, generation bump,
// rv bump only when something changed, finalizer-driven removal.
func (s *Store) finish(k Key, ki KindInfo, old, m map[string]any, dry bool) (map[string]any, bool, error) {
	omd := metaOf(old)
	md := metaOf(m)
	md["uid"] = omd["uid"]
	md["name"] = omd["name"]
	if ns, ok := omd["namespace"]; ok {
		md["namespace"] = ns
	} else {
		delete(md, "namespace")
	}
	md["creationTimestamp"] = omd["creationTimestamp"]
	if dt, ok := omd["deletionTimestamp"]; ok {
		md["deletionTimestamp"] = dt
	} else {
		delete(md, "deletionTimestamp")
	}
	md["generation"] = omd["generation"]
	md["resourceVersion"] = omd["resourceVersion"]
	if fl, ok := md["finalizers"].([]any); ok && len(fl) == 0 {
		delete(md, "finalizers")
	}
	if l, ok := md["labels"].(map[string]any); ok && len(l) == 0 {
		delete(md, "labels")
	}
	if l, ok := md["annotations"].(map[string]any); ok && len(l) == 0 {
		delete(md, "annotations")
	}
	if l, ok := md["ownerReferences"].([]any); ok && len(l) == 0 {
		delete(md, "ownerReferences")
	}
	m = normalize(m)
	md = metaOf(m)
	if err := s.admit(k, m); err != nil {
		return nil, false, err
	}
	// apimachinery ValidateOwnerReferences: at most one owner reference may be the controller
	nctrl := 0
	for _, r := range ownerRefs(m) {
		if r.Controller != nil && *r.Controller {
			nctrl++
		}
	}
	if nctrl > 1 {
		return nil, false, apierrors.NewInvalid(schema.GroupKind{Group: k.Group, Kind: k.Kind}, k.Name, nil)
	}
	if reflect.DeepEqual(normalize(old), m) {
		return deepCopyMap(m), false, nil // no-op write: rv unchanged
	}
	if !reflect.DeepEqual(specPart(normalize(old)), specPart(m)) {
		g, _ := md["generation"].(int64)
		md["generation"] = g + 1
	}
	if dry {
		return deepCopyMap(m), true, nil
	}
	md["resourceVersion"] = s.nextRV()
	if _, deleting := md["deletionTimestamp"]; deleting && len(finalizersOf(m)) == 0 {
		s.ghost(k, m)
		delete(s.objs, k)
		delete(s.lastApplied, k)
		return deepCopyMap(m), true, nil
	}
	s.put(k, m)
	return deepCopyMap(m), true, nil
}

func (s *Store) update(k Key, ki KindInfo, in map[string]any, dry bool) (map[string]any, error) {
	old, ok := s.objs[k]
	if !ok {
		return nil, apierrors.NewNotFound(gr(ki.GVK.GroupKind()), k.Name)
	}
	in = normalize(in)
	if rv := getStr(metaOf(in), "resourceVersion"); rv != "" && rv != getStr(metaOf(old), "resourceVersion") {
		return nil, conflict(k, "the object has been modified; please apply your changes to the latest version and try again")
	}
	if uid := getStr(metaOf(in), "uid"); uid != "" && uid != getStr(metaOf(old), "uid") {
		return nil, conflict(k, "Precondition failed: UID in precondition")
	}
	m := in
	if ki.StatusSub {
		if st, ok := old["status"]; ok {
			m["status"] = deepCopyAny(st)
		} else {
			delete(m, "status")
		}
	}
	if err := s.immutable(k, old, m); err != nil {
		return nil, err
	}
	res, _, err := s.finish(k, ki, old, m, dry)
	return res, err
}

// immutable enforces the CRD validation rules PKO's ObjectSet APIs carry
// (phases / previous / availabilityProbes / successDelaySeconds are immutable; lifecycleState transitions are NOT restricted).
func (s *Store) immutable(k Key, old, m map[string]any) error {
	if k.Group != "package-operator.run" || (k.Kind != "ObjectSet" && k.Kind != "ClusterObjectSet") {
		return nil
	}
	os, _ := old["spec"].(map[string]any)
	ns, _ := m["spec"].(map[string]any)
	for _, f := range []string{"phases", "previous", "availabilityProbes", "successDelaySeconds"} {
		if !reflect.DeepEqual(normalizeAny(os[f]), normalizeAny(ns[f])) {
			return apierrors.NewInvalid(schema.GroupKind{Group: k.Group, Kind: k.Kind}, k.Name, nil)
		}
	}
	return nil
}

func normalizeAny(v any) any {
	if v == nil {
		return nil
	}
	b, _ := json.Marshal(v)
	var out any
	_ = json.Unmarshal(b, &out)
	return out
}

func deepCopyAny(v any) any {
	return normalizeAnyKeepInts(v)
}

func normalizeAnyKeepInts(v any) any {
	w := map[string]any{"x": v}
	return deepCopyMap(w)["x"]
}

func (s *Store) statusUpdate(k Key, ki KindInfo, in map[string]any, dry bool) (map[string]any, error) {
	old, ok := s.objs[k]
	if !ok {
		return nil, apierrors.NewNotFound(gr(ki.GVK.GroupKind()), k.Name)
	}
	in = normalize(in)
	if rv := getStr(metaOf(in), "resourceVersion"); rv != "" && rv != getStr(metaOf(old), "resourceVersion") {
		return nil, conflict(k, "the object has been modified; please apply your changes to the latest version and try again")
	}
	m := deepCopyMap(old)
	if st, ok := in["status"]; ok {
		m["status"] = st
	} else {
		delete(m, "status")
	}
	res, _, err := s.finish(k, ki, old, m, dry)
	return res, err
}

// mergePatch applies an RFC 7386 merge patch; a resourceVersion inside the patch is a precondition.
func (s *Store) mergePatch(k Key, ki KindInfo, patch []byte, status bool, dry bool) (map[string]any, error) {
	old, ok := s.objs[k]
	if !ok {
		return nil, apierrors.NewNotFound(gr(ki.GVK.GroupKind()), k.Name)
	}
	var p map[string]any
	if err := json.Unmarshal(patch, &p); err != nil {
		return nil, apierrors.NewBadRequest(err.Error())
	}
	if pmd, ok := p["metadata"].(map[string]any); ok {
		if rv, ok := pmd["resourceVersion"].(string); ok && rv != "" && rv != getStr(metaOf(old), "resourceVersion") {
			return nil, conflict(k, "the object has been modified; please apply your changes to the latest version and try again")
		}
	}
	ob, _ := json.Marshal(old)
	nb, err := jsonpatch.MergePatch(ob, patch)
	if err != nil {
		return nil, apierrors.NewBadRequest(err.Error())
	}
	var m map[string]any
	if err := json.Unmarshal(nb, &m); err != nil {
		return nil, apierrors.NewBadRequest(err.Error())
	}
	m = normalize(m)
	if ki.StatusSub {
		if status {
			st := m["status"]
			m = deepCopyMap(old)
			if st != nil {
				m["status"] = st
			} else {
				delete(m, "status")
			}
		} else if st, ok := old["status"]; ok {
			m["status"] = deepCopyAny(st)
		} else {
			delete(m, "status")
		}
	}
	if err := s.immutable(k, old, m); err != nil {
		return nil, err
	}
	res, _, err := s.finish(k, ki, old, m, dry)
	return res, err
}

func (s *Store) jsonPatch(k Key, ki KindInfo, patch []byte, dry bool) (map[string]any, error) {
	old, ok := s.objs[k]
	if !ok {
		return nil, apierrors.NewNotFound(gr(ki.GVK.GroupKind()), k.Name)
	}
	jp, err := jsonpatch.DecodePatch(patch)
	if err != nil {
		return nil, apierrors.NewBadRequest(err.Error())
	}
	// a "replace /metadata/resourceVersion" operation is how a JSON patch carries the optimistic lock (csaupgrade does so)
	var ops []map[string]any
	_ = json.Unmarshal(patch, &ops)
	for _, op := range ops {
		if getStr(op, "path") == "/metadata/resourceVersion" {
			if v, _ := op["value"].(string); v != getStr(metaOf(old), "resourceVersion") {
				return nil, conflict(k, "the object has been modified; please apply your changes to the latest version and try again")
			}
		}
	}
	ob, _ := json.Marshal(old)
	nb, err := jp.Apply(ob)
	if err != nil {
		return nil, apierrors.NewBadRequest(err.Error())
	}
	var m map[string]any
	_ = json.Unmarshal(nb, &m)
	res, _, err := s.finish(k, ki, old, normalize(m), dry)
	return res, err
}

// apply models server-side apply with a single field manager ("package-operator", force):
// fields of the applied configuration are set; fields this manager applied before and no
// longer applies are removed; everything else (other managers' fields) is kept.
// metadata.ownerReferences is a map-list keyed by uid, all other lists are atomic.
func (s *Store) apply(k Key, ki KindInfo, applied map[string]any, dry bool) (map[string]any, bool, error) {
	applied = normalize(applied)
	amd := metaOf(applied)
	// server-managed fields in the body are ignored, except uid/resourceVersion which are preconditions
	for _, f := range []string{"creationTimestamp", "generation", "managedFields", "deletionTimestamp", "selfLink"} {
		delete(amd, f)
	}
	delete(applied, "status")
	old, exists := s.objs[k]
	if !exists {
		if uid := getStr(amd, "uid"); uid != "" {
			return nil, false, conflict(k, "uid mismatch: the provided object specified uid and no object was found")
		}
		delete(amd, "resourceVersion")
		res, err := s.create(k, ki, applied, dry)
		if err == nil && !dry {
			s.lastApplied[k] = stripServerMeta(applied)
		}
		return res, true, err
	}
	if uid := getStr(amd, "uid"); uid != "" && uid != getStr(metaOf(old), "uid") {
		return nil, false, conflict(k, "uid mismatch")
	}
	if rv := getStr(amd, "resourceVersion"); rv != "" && rv != getStr(metaOf(old), "resourceVersion") {
		return nil, false, conflict(k, "the object has been modified; please apply your changes to the latest version and try again")
	}
	a := stripServerMeta(applied)
	prev := s.lastApplied[k]
	m := deepCopyMap(old)
	removeApplied(m, prev, a, nil)
	mergeApplied(m, a, nil)
	res, changed, err := s.finish(k, ki, old, m, dry)
	if err == nil && !dry {
		s.lastApplied[k] = a
	}
	return res, changed, err
}

func stripServerMeta(applied map[string]any) map[string]any {
	a := deepCopyMap(applied)
	md := metaOf(a)
	for _, f := range []string{"uid", "resourceVersion", "name", "namespace"} {
		delete(md, f)
	}
	delete(a, "apiVersion")
	delete(a, "kind")
	return a
}

func isOwnerRefPath(path []string) bool {
	return len(path) == 2 && path[0] == "metadata" && path[1] == "ownerReferences"
}

// removeApplied deletes from m what prev applied and cur no longer applies.
func removeApplied(m, prev, cur map[string]any, path []string) {
	for f, pv := range prev {
		cv, still := cur[f]
		p := append(append([]string{}, path...), f)
		if isOwnerRefPath(p) {
			curUIDs := map[string]bool{}
			if still {
				for _, e := range asList(cv) {
					curUIDs[getStr(asMap(e), "uid")] = true
				}
			}
			var keep []any
			prevUIDs := map[string]bool{}
			for _, e := range asList(pv) {
				prevUIDs[getStr(asMap(e), "uid")] = true
			}
			for _, e := range asList(m[f]) {
				uid := getStr(asMap(e), "uid")
				if prevUIDs[uid] && !curUIDs[uid] {
					continue
				}
				keep = append(keep, e)
			}
			if len(keep) == 0 {
				delete(m, f)
			} else {
				m[f] = keep
			}
			continue
		}
		pm, pIsMap := pv.(map[string]any)
		if !still {
			if pIsMap {
				if mm, ok := m[f].(map[string]any); ok {
					removeApplied(mm, pm, map[string]any{}, p)
					if len(mm) == 0 {
						delete(m, f)
					}
					continue
				}
			}
			delete(m, f)
			continue
		}
		if pIsMap {
			if cm, ok := cv.(map[string]any); ok {
				if mm, ok := m[f].(map[string]any); ok {
					removeApplied(mm, pm, cm, p)
				}
			}
		}
	}
}

func asList(v any) []any {
	l, _ := v.([]any)
	return l
}

func asMap(v any) map[string]any {
	m, _ := v.(map[string]any)
	return m
}

func mergeApplied(m, a map[string]any, path []string) {
	for f, av := range a {
		p := append(append([]string{}, path...), f)
		if isOwnerRefPath(p) {
			cur := asList(m[f])
			for _, e := range asList(av) {
				uid := getStr(asMap(e), "uid")
				found := false
				for i, ce := range cur {
					if getStr(asMap(ce), "uid") == uid {
						cur[i] = deepCopyAny(e)
						found = true
					}
				}
				if !found {
					cur = append(cur, deepCopyAny(e))
				}
			}
			m[f] = cur
			continue
		}
		if am, ok := av.(map[string]any); ok {
			mm, ok := m[f].(map[string]any)
			if !ok {
				mm = map[string]any{}
				m[f] = mm
			}
			mergeApplied(mm, am, p)
			continue
		}
		m[f] = deepCopyAny(av)
	}
}

// del implements DELETE with preconditions and finalizer semantics.
// returns (removed-or-marked object, effect kind "removed"|"marked"|"noop", error)
func (s *Store) del(k Key, ki KindInfo, uid, rv *string, dry bool) (map[string]any, string, error) {
	old, ok := s.objs[k]
	if !ok {
		return nil, "", apierrors.NewNotFound(gr(ki.GVK.GroupKind()), k.Name)
	}
	omd := metaOf(old)
	if uid != nil && *uid != getStr(omd, "uid") {
		return nil, "", conflict(k, fmt.Sprintf("Precondition failed: UID in precondition: %v, UID in object meta: %v", *uid, omd["uid"]))
	}
	if rv != nil && *rv != getStr(omd, "resourceVersion") {
		return nil, "", conflict(k, fmt.Sprintf("Precondition failed: ResourceVersion in precondition: %v, ResourceVersion in object meta: %v", *rv, omd["resourceVersion"]))
	}
	if dry {
		return deepCopyMap(old), "noop", nil
	}
	if len(finalizersOf(old)) > 0 {
		if _, already := omd["deletionTimestamp"]; already {
			return deepCopyMap(old), "noop", nil
		}
		m := deepCopyMap(old)
		md := metaOf(m)
		md["deletionTimestamp"] = "2024-01-02T00:00:00Z"
		md["resourceVersion"] = s.nextRV()
		s.put(k, m)
		return deepCopyMap(m), "marked", nil
	}
	s.ghost(k, old)
	delete(s.objs, k)
	delete(s.lastApplied, k)
	return deepCopyMap(old), "removed", nil
}

// ownerUIDs returns the uids in metadata.ownerReferences.
func ownerRefs(m map[string]any) []metav1.OwnerReference {
	u := unstructured.Unstructured{Object: m}
	return u.GetOwnerReferences()
}

// NewStoreLike returns an empty store with the same registered kinds.
func NewStoreLike(o *Store) *Store {
	s := NewStore()
	for _, ki := range o.kinds {
		s.Register(ki.GVK, ki.Namespaced, ki.StatusSub)
	}
	for _, ki := range o.extra {
		s.AlsoServe(ki.GVK, ki.Namespaced)
	}
	return s
}

// SyncCreates makes every created-but-invisible object visible to cached reads; returns how many.
func (s *Store) SyncCreates() int {
	s.mu.Lock()
	defer s.mu.Unlock()
	n := len(s.Invisible)
	s.Invisible = map[Key]bool{}
	// deletes become visible more slowly than creates here (every 4th sync): a ghost has to survive several passes
	// to matter, and an adversarially slow cache is within the quantifier
	s.ghostAge++
	if (s.ghostAge%4 == 0 && !s.HoldGhosts) || s.FlushGhosts {
		n += len(s.Ghosts)
		s.Ghosts = map[Key]map[string]any{}
	}
	return n
}
